#!/bin/sh
# Build the offline tooling overlay: a py3.12 venv layered on /venv (the
# repository's own environment) plus z3-solver / cvc5 / crosshair-tool from
# the local wheelhouse.  Idempotent; no network.
set -e
cd "$(dirname "$0")"
V=.venv
if [ ! -x "$V/bin/python" ] || ! "$V/bin/python" -c 'import z3, cvc5' 2>/dev/null; then
    rm -rf "$V"
    /venv/bin/python -m venv "$V"
    SP=$("$V/bin/python" -c 'import sysconfig; print(sysconfig.get_paths()["purelib"])')
    printf '%s\n' "import site; site.addsitedir('/venv/lib/python3.12/site-packages')" > "$SP/_repo_overlay.pth"
    PIP_NO_INDEX=1 "$V/bin/pip" install -q --no-index --find-links /opt/veriftools/wheels z3-solver cvc5 crosshair-tool jsonschema >/dev/null
fi
"$V/bin/python" -c 'import z3, cvc5; print("verif venv ok: z3", z3.get_version_string())'
