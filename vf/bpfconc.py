"""bpfconc -- a plain-integer eBPF interpreter, written separately from
bpfsym, used (a) to validate bpfsym's step function on every run and (b) to
replay solver counterexamples on the bytes the real generator emitted.

Memory is a dict address -> byte.  Same region layout as bpfsym so that a
z3 model can be transferred one to one.
"""
import struct

from .bpfsym import CTX, PKT, MAPV, MAPSTRIDE, MAPPTR, FP, STACK

M64 = (1 << 64) - 1
M32 = (1 << 32) - 1


class Fault(Exception):
    pass


def sx(v, bits):
    v &= (1 << bits) - 1
    return v - (1 << bits) if v >> (bits - 1) else v


class Machine:
    def __init__(self, code, maps=(), packet=b"", mem=None, regs=None,
                 helpers=None):
        self.insns = []
        for i in range(0, len(code), 8):
            opc, r, off, imm = struct.unpack_from("<BBhi", code, i)
            self.insns.append((opc, r & 15, r >> 4, off, imm))
        self.maps = {m.fd: m for m in maps}
        self.mem = dict(mem or {})
        self.packet_len = len(packet)
        for i, b in enumerate(packet):
            self.mem[PKT + i] = b
        self.regs = [None] * 11
        self.regs[1] = CTX
        self.regs[10] = FP
        for k, v in (regs or {}).items():
            self.regs[k] = v & M64
        self.helpers = helpers or {}
        self.present = {}       # (fd, key) -> bool for 1-byte-key hash maps
        self.slots = {}         # fd -> [key or None] for other hash maps
        self.tail_registered = lambda idx: False
        self.trace = []
        self.default_byte = 0

    # memory -------------------------------------------------------------
    def check(self, addr, size):
        ok = False
        if FP - STACK <= addr and addr + size <= FP:
            ok = True
        if PKT <= addr and addr + size <= PKT + self.packet_len:
            ok = True
        for m in self.maps.values():
            if m.area and m.base <= addr and addr + size <= m.base + m.area:
                ok = True
        if not ok:
            raise Fault(f"access {size} bytes at {addr:#x} outside regions")

    def ld(self, addr, size):
        return sum(self.mem.get(addr + i, self.default_byte) << (8 * i)
                   for i in range(size))

    def stb(self, addr, size, val):
        for i in range(size):
            self.mem[addr + i] = (val >> (8 * i)) & 0xff

    def reg(self, r):
        v = self.regs[r]
        if v is None:
            raise Fault(f"read of uninitialised r{r}")
        return v

    # run ------------------------------------------------------------------
    def run(self, maxsteps=100000):
        self.pc = 0
        steps = 0
        while True:
            steps += 1
            if steps > maxsteps:
                raise Fault("step limit")
            r = self.step()
            if r is not None:
                return r

    pc = 0

    def step(self):
        """execute one instruction; returns the exit tuple or None"""
        pc = self.pc
        while True:
            if not 0 <= pc < len(self.insns):
                raise Fault(f"pc {pc} outside program")
            opc, dst, src, off, imm = self.insns[pc]
            self.trace.append(pc)
            cls = opc & 7
            if cls in (4, 7):
                w = 64 if cls == 7 else 32
                mask = (1 << w) - 1
                code = opc >> 4
                if code == 0xd:
                    v = self.reg(dst) & ((1 << imm) - 1)
                    if opc & 8:
                        v = int.from_bytes(v.to_bytes(imm // 8, "little"),
                                           "big")
                    self.regs[dst] = v
                elif code == 0xb:
                    if opc & 8:
                        b = self.reg(src)
                        if off in (8, 16, 32):
                            b = sx(b, off) & M64
                    else:
                        b = imm & M64
                    self.regs[dst] = b & mask
                else:
                    a = self.reg(dst) & mask
                    if code == 0x8:
                        b = 0
                    elif opc & 8:
                        b = self.reg(src) & mask
                    else:
                        b = imm & mask
                    if code == 0x0:
                        r = a + b
                    elif code == 0x1:
                        r = a - b
                    elif code == 0x2:
                        r = a * b
                    elif code == 0x3:
                        if b == 0:
                            r = 0
                        elif off == 1:
                            sa, sb = sx(a, w), sx(b, w)
                            q = abs(sa) // abs(sb)
                            r = q if (sa < 0) == (sb < 0) else -q
                        else:
                            r = a // b
                    elif code == 0x4:
                        r = a | b
                    elif code == 0x5:
                        r = a & b
                    elif code == 0x6:
                        r = a << (b & (w - 1))
                    elif code == 0x7:
                        r = a >> (b & (w - 1))
                    elif code == 0x8:
                        r = -a
                    elif code == 0x9:
                        if b == 0:
                            r = a
                        elif off == 1:
                            sa, sb = sx(a, w), sx(b, w)
                            r = abs(sa) % abs(sb)
                            if sa < 0:
                                r = -r
                        else:
                            r = a % b
                    elif code == 0xa:
                        r = a ^ b
                    elif code == 0xc:
                        r = sx(a, w) >> (b & (w - 1))
                    else:
                        raise Fault(f"alu {opc:#x}")
                    self.regs[dst] = r & mask
                self.pc = pc + 1
                return None
            elif cls == 0:
                if opc != 0x18:
                    raise Fault(f"ld {opc:#x}")
                lo = imm & M32
                hi = self.insns[pc + 1][4] & M32
                self.regs[dst] = MAPPTR + lo if src == 1 else lo | hi << 32
                self.pc = pc + 2
                return None
            elif cls == 1:
                size = {0: 4, 8: 2, 0x10: 1, 0x18: 8}[opc & 0x18]
                addr = (self.reg(src) + off) & M64
                if CTX <= addr < CTX + 24:
                    if size != 4 or addr - CTX not in (0, 4):
                        raise Fault("bad ctx access")
                    self.regs[dst] = PKT if addr == CTX \
                        else PKT + self.packet_len
                else:
                    self.check(addr, size)
                    self.regs[dst] = self.ld(addr, size)
                self.pc = pc + 1
                return None
            elif cls in (2, 3):
                size = {0: 4, 8: 2, 0x10: 1, 0x18: 8}[opc & 0x18]
                addr = (self.reg(dst) + off) & M64
                val = imm & M64 if cls == 2 else self.reg(src)
                self.check(addr, size)
                if opc & 0xe0 == 0xc0:
                    val = self.ld(addr, size) + val
                self.stb(addr, size, val & ((1 << (8 * size)) - 1))
                self.pc = pc + 1
                return None
            else:
                code = opc >> 4
                if code == 0x9:
                    return ("exit", self.reg(0))
                if code == 0x8:
                    r = self.call(imm)
                    if r is not None:
                        return r
                    self.pc = pc + 1
                    return None
                if code == 0x0:
                    self.pc = pc + 1 + off
                    return None
                w = 64 if cls == 5 else 32
                mask = (1 << w) - 1
                a = self.reg(dst) & mask
                b = (self.reg(src) if opc & 8 else imm) & mask
                sa, sb = sx(a, w), sx(b, w)
                t = {1: a == b, 2: a > b, 3: a >= b, 4: bool(a & b),
                     5: a != b, 6: sa > sb, 7: sa >= sb, 0xa: a < b,
                     0xb: a <= b, 0xc: sa < sb, 0xd: sa <= sb}[code]
                self.pc = pc + 1 + (off if t else 0)
                return None

    def load_hash(self, fd, entries):
        """initial contents of a hash map: {key bytes: value bytes}"""
        m = self.maps[fd]
        if m.key_size == 1:
            for k, v in entries.items():
                self.present[(fd, k[0])] = True
                self.stb(m.base + k[0] * m.value_size, m.value_size,
                         int.from_bytes(v, "little"))
            return
        tab = self.slots.setdefault(fd, [None] * m.slots)
        for i, (k, v) in enumerate(entries.items()):
            tab[i] = int.from_bytes(k, "little")
            self.stb(m.base + i * m.value_size, m.value_size,
                     int.from_bytes(v, "little"))

    def hash_contents(self, fd):
        m = self.maps[fd]
        if m.key_size == 1:
            return {bytes([k]): bytes(self.ld(m.base + k * m.value_size + j, 1)
                                      for j in range(m.value_size))
                    for (f, k), p in self.present.items() if f == fd and p}
        return {k.to_bytes(m.key_size, "little"):
                bytes(self.ld(m.base + i * m.value_size + j, 1)
                      for j in range(m.value_size))
                for i, k in enumerate(self.slots.get(fd, [])) if k is not None}

    def call(self, no):
        r = self.regs
        if no in self.helpers:
            r0 = self.helpers[no](self)
        elif no == 1:
            m = self.maps[self.reg(1) - MAPPTR]
            key = self.ld(self.reg(2), m.key_size)
            if m.kind in ("array", "percpu_array"):
                r0 = m.base + key * m.value_size if key < m.max_entries else 0
            elif m.kind == "hash" and m.key_size == 1:
                r0 = m.base + key * m.value_size \
                    if self.present.get((m.fd, key)) else 0
            elif m.kind == "hash":
                tab = self.slots.setdefault(m.fd, [None] * m.slots)
                r0 = 0
                for i, k in enumerate(tab):
                    if k == key:
                        r0 = m.base + i * m.value_size
            else:
                raise Fault("lookup: map kind not modelled concretely")
        elif no == 2:
            m = self.maps[self.reg(1) - MAPPTR]
            key = self.ld(self.reg(2), m.key_size)
            val = self.ld(self.reg(3), m.value_size)
            self.reg(4)
            if m.kind == "hash" and m.key_size == 1:
                self.present[(m.fd, key)] = True
                self.stb(m.base + key * m.value_size, m.value_size, val)
                r0 = 0
            elif m.kind == "hash":
                tab = self.slots.setdefault(m.fd, [None] * m.slots)
                flags = self.reg(4) & 3
                if key in tab:
                    i = tab.index(key)
                    r0 = (-17) & M64 if flags == 1 else 0
                elif flags == 2:
                    i, r0 = None, (-2) & M64
                elif None in tab:
                    i = tab.index(None)
                    tab[i] = key
                    r0 = 0
                else:
                    i, r0 = None, (-7) & M64
                if r0 == 0:
                    self.stb(m.base + i * m.value_size, m.value_size, val)
            else:
                raise Fault("update: map kind not modelled concretely")
        elif no == 12:
            m = self.maps[self.reg(2) - MAPPTR]
            idx = self.reg(3) & M32
            self.reg(1)
            if idx < m.max_entries and self.tail_registered(idx):
                return ("tail_call", idx)
            r0 = (-2) & M64
        else:
            raise Fault(f"helper {no} needs a stub")
        r[0] = r0 & M64
        for i in range(1, 6):
            r[i] = None
        return None
