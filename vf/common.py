"""shared check infrastructure: tiers, evidence, known findings, exit codes"""
import hashlib
import re
import json
import os
import sys
import time

VERIF = os.path.dirname(os.path.dirname(os.path.abspath(__file__)))
REPO = os.environ.get("VERIF_REPO", "/repo")
NCPU = int(os.environ.get("VERIF_JOBS", "0")) or min(16, os.cpu_count() or 1)

EXIT_OK, EXIT_VIOLATION, EXIT_HARNESS = 0, 1, 2


def use_repo():
    """make `import ebpfcat` resolve to the working tree under REPO"""
    if sys.path[0] != REPO:
        sys.path.insert(0, REPO)
    for k in [k for k in sys.modules if k == "ebpfcat" or k.startswith("ebpfcat.")]:
        f = getattr(sys.modules[k], "__file__", "") or ""
        if not f.startswith(REPO + "/"):
            del sys.modules[k]
    os.environ.setdefault("EBPFCAT_VERIF", "1")


def seed():
    try:
        return int(os.environ.get("VERIF_SEED", "0"))
    except ValueError:
        return 0


def load_known():
    p = os.path.join(VERIF, "known_findings.json")
    if not os.path.exists(p):
        return []
    with open(p) as f:
        return json.load(f)["findings"]


class HarnessError(Exception):
    pass


class Check:
    """collects what one run of one property's check did"""

    def __init__(self, pid, tier, level, functions, bounds, stubs=(),
                 assumptions=()):
        self.pid, self.tier, self.level = pid, tier, level
        self.t0 = time.time()
        self.functions = list(functions)
        self.bounds = dict(bounds)
        self.stubs = list(stubs)
        self.assumptions = list(assumptions)
        self.obligations = 0
        self.discharged = 0
        self.undecided = 0
        self.undecided_list = []
        self.solver_s = 0.0
        self.queries = 0
        self.programs = 0
        self.states = 0
        self.transitions = 0
        self.replayed = 0
        self.samples = []
        self.violations = []      # dict(signature, what, witness, replay)
        self.known_hits = {}      # signature -> count
        self.errors = []
        self.extra = {}
        self.known = [k for k in load_known()
                      if k.get("property") == pid and k.get("status") == "open"]
        self.undecided_allowance = 0
        self.vacuity = []         # (name, ok)

    # -- recording ---------------------------------------------------------
    def sample(self, s, cap=12):
        if len(self.samples) < cap:
            self.samples.append(s)

    def add(self, res):
        """merge a worker result dict"""
        for k in ("obligations", "discharged", "undecided", "queries",
                  "programs", "states", "transitions", "replayed"):
            setattr(self, k, getattr(self, k) + res.get(k, 0))
        self.solver_s += res.get("solver_s", 0.0)
        for s in res.get("samples", ()):
            self.sample(s)
        for u in res.get("undecided_list", ()):
            if len(self.undecided_list) < 50:
                self.undecided_list.append(u)
        for v in res.get("violations", ()):
            self.violation(**v)
        for e in res.get("errors", ()):
            self.errors.append(e)
        for v in res.get("vacuity", ()):
            self.vacuity.append(tuple(v))

    def violation(self, signature, what, witness=None, replay=None,
                  replayed=True):
        """a counterexample that reproduced on the real code"""
        for k in self.known:
            if k.get("signature") == signature or (
                    k.get("pattern") and re.fullmatch(k["pattern"], signature)):
                signature = k.get("signature") or k["pattern"]
                self.known_hits.setdefault(signature, [0, k, what, witness])
                self.known_hits[signature][0] += 1
                return
        self.violations.append(dict(signature=signature, what=what,
                                    witness=witness, replay=replay))

    def error(self, msg):
        self.errors.append(msg)

    # -- finishing ---------------------------------------------------------
    def write_replay(self, v, n):
        d = os.path.join(VERIF, "replays") if REPO == "/repo" else \
            os.path.join("/tmp", "verif-replays-scratch")
        os.makedirs(d, exist_ok=True)
        h = hashlib.sha1(v["signature"].encode()).hexdigest()[:10]
        p = os.path.join(d, f"{self.pid}-{h}.json")
        with open(p, "w") as f:
            json.dump(dict(property=self.pid, signature=v["signature"],
                           what=v["what"], witness=v["witness"],
                           replay=v["replay"]), f, indent=1, default=str)
        return p

    def finish(self):
        wall = time.time() - self.t0
        cov = dict(
            functions_encoded=self.functions, bounds=self.bounds,
            stubs=self.stubs,
            obligations=self.obligations, discharged=self.discharged,
            undecided=self.undecided, undecided_list=self.undecided_list,
            queries=self.queries, solver_s=round(self.solver_s, 2),
            solver="z3 %s" % _z3v(),
            samples=self.samples or ["(none)"],
            vacuity_checks=[dict(name=n, reachable=ok) for n, ok in self.vacuity],
            known_findings_matched=[
                dict(signature=s, count=c, what=w, witness=wit)
                for s, (c, k, w, wit) in self.known_hits.items()],
            violations_detail=self.violations[:20],
            errors=self.errors[:20],
            regenerated_from=REPO,
        )
        cov.update(self.extra)
        if self.level == "translation_validation":
            cov["programs"] = max(self.programs, 0)
            cov["disagreements_checked"] = self.replayed
        elif self.level == "model_checking":
            cov["states"] = max(self.states, 0)
            cov["transitions"] = max(self.transitions, 0)
            cov["traces_validated_against_impl"] = self.replayed
        else:
            cov["explanation"] = self.extra.get("explanation", "see bounds")
            cov["programs"] = self.programs
        # generic counts too (never constants)
        cov["evaluations"] = self.queries
        cov["distinct_nontrivial"] = self.obligations
        cov["rule"] = ("one evaluation = one solver query; one non-trivial "
                       "case = one distinct proof obligation (program/shape "
                       "x claim) decided over all values of its symbolic inputs")
        ev = dict(property_id=self.pid, tier=self.tier, seed=seed(),
                  level=self.level, coverage=cov,
                  assumptions=self.assumptions, wall_s=round(wall, 2),
                  violations=len(self.violations))
        # runs against a scratch tree (VERIF_REPO) never touch the evidence
        # of /repo
        evdir = os.path.join(VERIF, "evidence") if REPO == "/repo" else \
            os.path.join("/tmp", "verif-evidence-scratch")
        os.makedirs(evdir, exist_ok=True)
        with open(os.path.join(evdir, f"{self.pid}.json"), "w") as f:
            json.dump(ev, f, indent=1, default=str)

        print(f"[{self.pid}] tier={self.tier} obligations={self.obligations} "
              f"discharged={self.discharged} undecided={self.undecided} "
              f"queries={self.queries} solver_s={self.solver_s:.1f} "
              f"wall_s={wall:.1f}")
        for s, (c, k, w, wit) in self.known_hits.items():
            print(f"KNOWN-FINDING: property={self.pid} {k['what']} "
                  f"[{c} case(s) this run, e.g. {w}]")
        code = EXIT_OK
        for i, v in enumerate(self.violations):
            p = self.write_replay(v, i)
            print(f"VIOLATION property={self.pid} replay={p}")
            print(f"  what: {v['what']}")
            print(f"  signature: {v['signature']}")
            code = EXIT_VIOLATION
        if code == EXIT_OK:
            bad = []
            if self.errors:
                bad.append(f"{len(self.errors)} harness error(s): "
                           + "; ".join(map(str, self.errors[:3])))
            if self.undecided > self.undecided_allowance:
                bad.append(f"{self.undecided} undecided obligation(s) "
                           f"(allowance {self.undecided_allowance})")
            for n, ok in self.vacuity:
                if not ok:
                    bad.append(f"vacuity twin '{n}' not reachable")
            if self.obligations == 0:
                bad.append("no obligations generated")
            if bad:
                for b in bad:
                    print(f"HARNESS-ERROR [{self.pid}] {b}")
                code = EXIT_HARNESS
        return code


def _z3v():
    try:
        import z3
        return z3.get_version_string()
    except Exception:
        return "?"


class _Safe:
    """a worker that dies takes the whole pool down: turn anything that
    escapes into an error result"""

    def __init__(self, fn):
        self.fn = fn

    def __call__(self, item):
        try:
            return self.fn(item)
        except BaseException as ex:          # noqa: B902
            import traceback
            return dict(errors=[f"worker crashed on {str(item)[:80]}: "
                                f"{type(ex).__name__}: {ex} "
                                f"{traceback.format_exc()[-300:]}"])


def pmap(fn, items, jobs=None):
    """parallel map over worker processes (fork); results in order"""
    fn = _Safe(fn)
    items = list(items)
    jobs = jobs or NCPU
    if jobs <= 1 or len(items) <= 1:
        return [fn(i) for i in items]
    import multiprocessing as mp
    ctx = mp.get_context("fork")
    chunk = max(1, len(items) // (jobs * 8))
    with ctx.Pool(min(jobs, len(items))) as pool:
        return pool.map(fn, items, chunksize=chunk)


class Q:
    """solver front end with bookkeeping.  Primary: z3 (bit-blasting) under a
    deterministic resource limit.  Fallback for queries z3 leaves undecided:
    the cvc5 binary with --solve-bv-as-int=sum (integer encoding that keeps
    the mod-2^k semantics), which decides the width-transfer facts about
    multiplication/division that bit-blasting does not finish.  `unknown` is
    never reported as a pass."""

    def __init__(self, rlimit=8_000_000, timeout_ms=20_000, fallback=True,
                 fb_timeout=60):
        import z3
        self.z3 = z3
        self.rlimit, self.timeout_ms = rlimit, timeout_ms
        self.fallback, self.fb_timeout = fallback, fb_timeout
        self.queries = 0
        self.solver_s = 0.0
        self.fb_queries = 0
        self.fb_decided = 0
        self.abs_queries = 0
        self.abs_decided = 0
        self.use_cvc5 = True
        self.escalate = 60
        self.escalated = 0

    def check(self, *formulas, rlimit=None, hints=None):
        """-> ('unsat'|'sat'|'unknown', model-like or None); the model has
        .eval(term, model_completion=True).  `hints`: extra constraints that
        narrow the search for a model when the query is undecided; a model
        found under hints is a model of the query (only `sat` is used)."""
        cv = self.use_cvc5
        self.use_cvc5 = False
        try:
            rs, model = self._check(formulas, rlimit)
            if rs == "unknown" and hints:
                keep = self.fallback
                self.fallback = False
                try:
                    r2, m2 = self._check(tuple(formulas) + tuple(hints), rlimit)
                finally:
                    self.fallback = keep
                if r2 == "sat":
                    return r2, m2
        finally:
            self.use_cvc5 = cv
        if rs == "unknown" and self.fallback and self.use_cvc5:
            t = time.time()
            rs, model = self._cvc5(formulas)
            self.solver_s += time.time() - t
        if rs == "unknown" and self.escalate:
            # last resort: the exact query with a much larger budget
            z3 = self.z3
            s = z3.Solver()
            s.set("rlimit", (rlimit or self.rlimit) * self.escalate)
            s.set("timeout", self.timeout_ms * 8)
            s.add(*formulas)
            t = time.time()
            rs = str(s.check())
            self.solver_s += time.time() - t
            self.escalated += 1
            model = s.model() if rs == "sat" else None
        return rs, model

    def _check(self, formulas, rlimit=None):
        z3 = self.z3
        t = time.time()
        self.queries += 1
        rs, model = "unknown", None
        if self.fallback:
            # stage 1: UF abstraction of mul/div/rem + valid lemma instances
            # (cheap); only `unsat` is conclusive
            from . import arith
            fs, ax, napps = arith.abstract(list(formulas))
            if napps:
                s2 = z3.Solver()
                s2.set("rlimit", rlimit or self.rlimit)
                s2.set("timeout", self.timeout_ms)
                s2.add(*fs)
                s2.add(*ax)
                self.abs_queries += 1
                if str(s2.check()) == "unsat":
                    self.abs_decided += 1
                    rs = "unsat"
        if rs == "unknown":
            s = z3.Solver()
            s.set("rlimit", rlimit or self.rlimit)
            s.set("timeout", self.timeout_ms)
            for f in formulas:
                s.add(f)
            rs = str(s.check())
            model = s.model() if rs == "sat" else None
        if rs == "unknown" and self.fallback and self.use_cvc5:
            rs, model = self._cvc5(formulas)
        self.solver_s += time.time() - t
        return rs, model

    # -- cvc5 fallback -----------------------------------------------------
    def _cvc5(self, formulas):
        import subprocess
        import tempfile
        z3 = self.z3
        self.fb_queries += 1
        f = z3.And(*formulas) if len(formulas) > 1 else formulas[0]
        # arrays are only read at constant addresses here: replace every
        # select(array, const) by a fresh byte constant
        sel = {}

        def walk(t, seen):
            if t.get_id() in seen:
                return
            seen[t.get_id()] = t
            if z3.is_select(t):
                a, i = t.arg(0), t.arg(1)
                if z3.is_const(a) and a.decl().kind() == z3.Z3_OP_UNINTERPRETED \
                        and z3.is_bv_value(i):
                    nm = f"sel!{a.decl().name()}!{i.as_long()}"
                    sel[t.get_id()] = (t, z3.Bool(nm) if z3.is_bool(t)
                                       else z3.BitVec(nm, t.size()))
                    return
            for c in t.children():
                walk(c, seen)
        f = z3.simplify(f)
        walk(f, {})
        if sel:
            f = z3.substitute(f, *sel.values())
        if any(z3.is_array(v) for v in _free_vars(z3, f)):
            return "unknown", None
        s = z3.Solver()
        s.add(f)
        names = [v for v in _free_vars(z3, f) if not z3.is_array(v)]
        text = "(set-logic QF_UFBV)\n(set-option :produce-models true)\n" \
            + s.to_smt2().replace("(check-sat)", "")
        # z3's simplifier writes divisions whose divisor it has shown to be
        # non-zero as bvudiv_i etc.: same function on that domain
        text = re.sub(r"\b(bvudiv|bvsdiv|bvurem|bvsrem|bvsmod)_i\b", r"\1", text)
        text += "(check-sat)\n"
        if names:
            text += "(get-value (" + " ".join(
                _smtname(v.decl().name()) for v in names) + "))\n"
        with tempfile.NamedTemporaryFile("w", suffix=".smt2", delete=False,
                                         dir=os.environ.get("TMPDIR")) as tf:
            tf.write(text)
            path = tf.name
        try:
            p = subprocess.run(
                ["cvc5", "--solve-bv-as-int=sum", path], capture_output=True,
                text=True, timeout=self.fb_timeout)
            out = p.stdout
        except subprocess.TimeoutExpired:
            return "unknown", None
        finally:
            os.unlink(path)
        first = out.strip().split("\n", 1)[0].strip()
        rest = out.strip().split("\n", 1)[1] if "\n" in out.strip() else ""
        if p.stderr.strip() or first.startswith("(error"):
            return "unknown", None
        if first == "unsat" and (
                "(error" not in rest
                or "Cannot get value unless after a SAT" in rest):
            self.fb_decided += 1
            return "unsat", None
        if first == "sat" and "(error" not in rest:
            vals = _parse_values(out)
            back = {v[1].decl().name(): v[0] for v in sel.values()}
            self.fb_decided += 1
            return "sat", _FbModel(z3, names, vals, back)
        return "unknown", None


def _smtname(n):
    return n if re.fullmatch(r"[A-Za-z_][A-Za-z0-9_]*", n) else f"|{n}|"


def _free_vars(z3, f):
    out, seen = {}, {}

    def walk(t):
        if t.get_id() in seen:
            return
        seen[t.get_id()] = t
        if z3.is_const(t) and t.decl().kind() == z3.Z3_OP_UNINTERPRETED:
            out[t.decl().name()] = t
        for c in t.children():
            walk(c)
    walk(f)
    return list(out.values())


def _parse_values(out):
    vals = {}
    for m in re.finditer(r"\((\|[^|]*\||[^\s()]+)\s+(#x[0-9a-fA-F]+|#b[01]+|true|false)\)", out):
        n, v = m.group(1).strip("|"), m.group(2)
        if v.startswith("#x"):
            vals[n] = int(v[2:], 16)
        elif v.startswith("#b"):
            vals[n] = int(v[2:], 2)
        else:
            vals[n] = v == "true"
    return vals


class _FbModel:
    """model returned by the fallback solver, evaluable like a z3 model"""

    def __init__(self, z3, names, vals, back):
        self.z3 = z3
        self.subst = []
        for v in names:
            n = v.decl().name()
            x = vals.get(n, 0)
            if z3.is_bool(v):
                c = z3.BoolVal(bool(x))
            else:
                c = z3.BitVecVal(x, v.size())
            self.subst.append((v, c))
            if n in back:            # the select term this constant stands for
                self.subst.append((back[n], c))

    def eval(self, t, model_completion=True):
        z3 = self.z3
        r = z3.simplify(z3.substitute(t, *self.subst))
        if model_completion and not (z3.is_bv_value(r) or z3.is_true(r)
                                     or z3.is_false(r)):
            # unconstrained leftovers: complete with zero
            fv = _free_vars(z3, r)
            r = z3.simplify(z3.substitute(r, *[
                (v, z3.BoolVal(False) if z3.is_bool(v)
                 else z3.BitVecVal(0, v.size())) for v in fv
                if not z3.is_array(v)]))
        return r


def _lemma_worker(item):
    name, smt = item
    import z3
    q = Q(rlimit=20_000_000, timeout_ms=20_000, fb_timeout=120)
    q.fallback_abstract = False
    f = z3.parse_smt2_string(smt)
    s = z3.Solver()
    s.set("timeout", 20_000)
    s.add(f)
    t = time.time()
    r = str(s.check())
    if r == "unknown":
        r, _ = q._cvc5(list(f))
    return name, r, time.time() - t


def prove_lemmas(ck):
    """discharge the lemma schemas used by the UF abstraction (vf/arith.py)
    exactly (z3, else cvc5 integer encoding); a schema that cannot be proved
    is a harness error"""
    import z3
    from . import arith
    items = []
    for name, f in arith.lemma_schemas().items():
        s = z3.Solver()
        s.add(f)
        items.append((name, s.to_smt2()))
    for name, r, dt in pmap(_lemma_worker, items):
        ck.obligations += 1
        ck.queries += 1
        ck.solver_s += dt
        if r == "unsat":
            ck.discharged += 1
        else:
            ck.error(f"abstraction lemma {name} not proved: {r}")
    ck.extra["abstraction_lemmas"] = len(items)
