"""model of the kernel side of the bpf() map commands for the engine-B
harnesses (C09, C10).

The real ebpfcat.bpf functions (_lookup_elem, update_elem, delete_elem,
get_next_key, create_map) run unchanged; what they call -- ctypes address
taking and the bpf system call -- is replaced: an "address" is a token that
remembers the Python buffer it was taken from, and the system call model
checks, like the kernel's copy_from_user / copy_to_user would touch them,
that the key and value buffers are at least as large as the map's key size
and value size (per-CPU maps: value size rounded up to 8 times the number of
POSSIBLE CPUs), then performs the operation on the model's map contents.
"""
import errno

from . import pysym
from .pysym import E


class KernelFault(Exception):
    """the kernel would touch memory outside a Python buffer: the run ends
    here (the violation has been recorded)"""


class Addr:
    def __init__(self, buf):
        self.buf = buf

    @property
    def value(self):
        return self


class CChar:
    @staticmethod
    def from_buffer(buf):
        return Addr(buf)


def blen(buf):
    if isinstance(buf, (pysym.SBytes, pysym.SByteArray)):
        return pysym.sym_len(buf)
    return len(buf)


def getbytes(buf, n):
    """first n bytes of a buffer as a list"""
    return [buf[i] for i in range(n)]


class Kernel:
    ARRAY, PERCPU_ARRAY, HASH, LRU_HASH, PROG_ARRAY = 2, 6, 1, 9, 3

    def __init__(self, possible_cpus=4):
        self.maps = {}
        self.next_fd = 50
        self.possible = possible_cpus
        self.log = []
        self.fresh = 0

    # -- what replaces the ctypes layer --------------------------------------
    def install(self, bpfm):
        saved = {n: bpfm.__dict__[n] for n in
                 ("bpf", "addrof", "c_char", "addressof")}
        bpfm.bpf = self.bpf
        bpfm.addrof = lambda ptr: Addr(ptr)
        bpfm.c_char = CChar
        bpfm.addressof = lambda a: a

        def undo():
            for n, v in saved.items():
                bpfm.__dict__[n] = v
        return undo

    # -- helpers ----------------------------------------------------------------
    def value_bytes(self, m):
        if m["type"] == self.PERCPU_ARRAY:
            return ((m["value_size"] + 7) // 8) * 8 * self.possible
        return m["value_size"]

    def need(self, m, addr, n, what, op):
        ok = isinstance(addr, Addr) and blen(addr.buf) >= n
        if isinstance(ok, bool):
            if not ok:
                have = blen(addr.buf) if isinstance(addr, Addr) else addr
                E.fail(f"{op}: the {what} buffer has {have} bytes, the "
                       f"kernel accesses {n} ({m['kind']} map, key size "
                       f"{m['key_size']}, value size {m['value_size']})")
                raise KernelFault()
            else:
                E.prove(True, f"{op}: {what} buffer large enough")
        else:
            E.prove(ok, f"{op}: the {what} buffer is at least {n} bytes")
        if not (isinstance(addr, Addr) and bool(blen(addr.buf) >= n)):
            raise KernelFault()
        return True

    def find(self, m, key):
        for i, (k, v) in enumerate(m["entries"]):
            same = True
            for a, b in zip(k, key):
                same = pysym.land(same, a == b)
            if bool(same):
                return i
        return None

    def put(self, addr, data):
        buf = addr.buf
        for i, b in enumerate(data):
            buf[i] = b

    # -- the system call -----------------------------------------------------------
    def bpf(self, cmd, fmt, *args):
        if cmd == 0:
            mtype, ks, vs, n, flags = args
            fd = self.next_fd
            self.next_fd += 1
            kind = {self.ARRAY: "array", self.PERCPU_ARRAY: "per-CPU array",
                    self.HASH: "hash", self.LRU_HASH: "LRU hash",
                    self.PROG_ARRAY: "program array"}.get(mtype, str(mtype))
            self.maps[fd] = dict(type=mtype, kind=kind, key_size=ks,
                                 value_size=vs, max=n, entries=[], fd=fd)
            return fd, args
        fd = args[0]
        m = self.maps[fd]
        op = {1: "lookup", 2: "update", 3: "delete", 4: "get_next_key",
              21: "lookup_and_delete"}.get(cmd, f"cmd {cmd}")
        self.log.append((op, fd))
        ks, vb = m["key_size"], self.value_bytes(m)
        if cmd in (1, 21):
            _, key, val, flags = args
            if not (self.need(m, key, ks, "key", op) and
                    self.need(m, val, vb, "value", op)):
                return 0, args
            if m["type"] in (self.ARRAY, self.PERCPU_ARRAY):
                self.fresh += 1
                data = E.bytes(f"map{fd}_content{self.fresh}", vb)
                if isinstance(vb, int):
                    self.put(val, getbytes(data, vb))
                else:                       # symbolic number of CPUs
                    val.buf[0:vb] = data
                return 0, args
            i = self.find(m, getbytes(key.buf, ks))
            if i is None:
                raise OSError(errno.ENOENT, "no such entry")
            self.put(val, m["entries"][i][1])
            if cmd == 21:
                del m["entries"][i]
            return 0, args
        if cmd == 2:
            _, key, val, flags = args
            if not (self.need(m, key, ks, "key", op) and
                    self.need(m, val, vb, "value", op)):
                return 0, args
            k, v = getbytes(key.buf, ks), getbytes(val.buf, vb)
            i = self.find(m, k)
            if i is None:
                if flags == 2:
                    raise OSError(errno.ENOENT, "no such entry")
                if len(m["entries"]) >= m["max"] and m["type"] != self.LRU_HASH:
                    raise OSError(errno.E2BIG, "map is full")
                m["entries"].append((k, v))
            else:
                if flags == 1:
                    raise OSError(errno.EEXIST, "entry exists")
                m["entries"][i] = (k, v)
            return 0, args
        if cmd == 3:
            _, key = args
            if not self.need(m, key, ks, "key", op):
                return 0, args
            i = self.find(m, getbytes(key.buf, ks))
            if i is None:
                raise OSError(errno.ENOENT, "no such entry")
            del m["entries"][i]
            return 0, args
        if cmd == 4:
            _, key, nxt = args
            if not self.need(m, nxt, ks, "next key", op):
                return 0, args
            if isinstance(key, Addr):
                if not self.need(m, key, ks, "key", op):
                    return 0, args
                i = self.find(m, getbytes(key.buf, ks))
                i = -1 if i is None else i
            else:
                i = -1
            if i + 1 >= len(m["entries"]):
                raise OSError(errno.ENOENT, "no more keys")
            self.put(nxt, m["entries"][i + 1][0])
            return 0, args
        raise NotImplementedError(f"bpf command {cmd}")


def stub_cpus(am, online, possible):
    """make the arraymap module see `online` online and `possible` possible
    CPUs (os.cpu_count and /sys/devices/system/cpu/*); returns undo()"""
    import io
    saved_cpu = am.__dict__.get("cpu_count")
    saved_open = am.__dict__.get("open")

    class SymRanges:
        """content of the `possible` file for a symbolic CPU count: one
        range "0-<N-1>" whose upper end stays a solver variable"""

        def read(self):
            return self

        def strip(self):
            return self

        def split(self, sep=None):
            return [self]

        def rpartition(self, sep):
            return ("0", sep, possible - 1)

        def __enter__(self):
            return self

        def __exit__(self, *a):
            return False

    def fake_open(path, *a, **k):
        if "cpu/possible" in str(path):
            if not isinstance(possible, int):
                return SymRanges()
            return io.StringIO(f"0-{possible - 1}\n")
        if "cpu/online" in str(path):
            return io.StringIO(f"0-{online - 1}\n")
        raise FileNotFoundError(path)
    am.cpu_count = lambda: online
    am.open = fake_open

    def undo():
        am.cpu_count = saved_cpu
        if saved_open is None:
            am.__dict__.pop("open", None)
        else:
            am.open = saved_open
    return undo
