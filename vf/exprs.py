"""shape language for DSL statements, DSL construction, and the reference
semantics (written from the property statements C01/C02, not from the code).

Shapes (JSON-able tuples/lists):
  leaf   ["L", fmt]            local variable
         ["M", fmt]            array-map variable
         ["R", view, no]       register view r/sr/w/sw/x, initialised from a
                               local variable of the matching format
         ["C", value]          program constant (int, or str of a decimal)
  node   ["bin", op, a, b]     op in + - * // % / & | ^ << >>
         ["rbin", op, c, a]    reflected: python constant c on the left
         ["neg", a]  ["abs", a]
  stmt   ["set", dest, expr]   dest is a leaf of kind L/M/R
         ["aug", dest, op, expr]
"""
import operator
from fractions import Fraction

import z3
from z3 import (And, BitVecVal, BoolVal, BVAddNoOverflow, BVAddNoUnderflow,
                BVMulNoOverflow, BVMulNoUnderflow, BVSubNoOverflow,
                BVSubNoUnderflow, Extract, If, LShR, Not, Or, SignExt, UDiv,
                UGE, ULT, URem, ZeroExt, simplify)

from .bpfsym import FP, bv, load

FIXED = 100000
VIEWFMT = {"r": "Q", "sr": "q", "w": "I", "sw": "i", "x": "x"}
SIZES = {"B": 1, "b": 1, "H": 2, "h": 2, "I": 4, "i": 4, "Q": 8, "q": 8,
         "x": 8}
PYOPS = {"+": operator.add, "-": operator.sub, "*": operator.mul,
         "//": operator.floordiv, "%": operator.mod, "/": operator.truediv,
         "&": operator.and_, "|": operator.or_, "^": operator.xor,
         "<<": operator.lshift, ">>": operator.rshift}
RING = {"+", "-", "*", "&", "|", "^", "<<"}
REGS_FREE = [2, 3, 4, 5, 6, 8]


def fmt_signed(fmt):
    return fmt.islower()


def const_value(c):
    """python value the DSL gets, and exact Fraction"""
    if isinstance(c, str):
        return float(c), Fraction(c)
    return c, Fraction(c)


class Plan:
    """walk a statement shape: allocate variables, build the namespace"""

    def __init__(self, stmt, ebpf_mod, arraymap_mod):
        self.stmt = stmt
        self.ns = {}
        self.leaves = {}      # id(path) -> info
        self.vars = []        # (name, storage, fmt)
        self.reginits = []    # (view, no, varname)
        self.regs_left = list(REGS_FREE)
        self.ebpf, self.am = ebpf_mod, arraymap_mod
        self.map = None
        self.info = {}
        if stmt is not None:
            self._walk_stmt(stmt)

    def add_expr(self, path, expr):
        self._walk(path, expr)

    def add_var(self, storage, fmt):
        return self._var(storage, fmt)

    def emit_inits(self, e):
        for view, no, name in self.reginits:
            getattr(e, view)[no] = getattr(e, name)

    def _var(self, storage, fmt):
        name = f"{'l' if storage == 'L' else 'm'}{len(self.vars)}"
        if storage == "L":
            self.ns[name] = self.ebpf.LocalVar(fmt)
        else:
            if self.map is None:
                self.map = self.am.ArrayMap()
                self.ns["themap"] = self.map
            self.ns[name] = self.map.globalVar(fmt)
        self.vars.append((name, storage, fmt))
        return name

    def _leaf(self, path, leaf):
        k = leaf[0]
        if k in ("L", "M"):
            self.info[path] = ("var", self._var(k, leaf[1]), k, leaf[1])
        elif k == "R":
            view = leaf[1]
            no = leaf[2] if len(leaf) > 2 and leaf[2] is not None \
                else self.regs_left.pop(0)
            if no in self.regs_left:
                self.regs_left.remove(no)
            name = self._var("L", VIEWFMT[view])
            self.reginits.append((view, no, name))
            self.info[path] = ("reg", view, no, name)
        elif k == "C":
            self.info[path] = ("const", leaf[1])
        else:
            raise ValueError(leaf)

    def _walk(self, path, e):
        k = e[0]
        if k == "bin":
            self._walk(path + "l", e[2])
            self._walk(path + "r", e[3])
        elif k == "rbin":
            self._walk(path + "r", e[3])
        elif k in ("neg", "abs"):
            self._walk(path + "a", e[1])
        else:
            self._leaf(path, e)

    def _walk_stmt(self, s):
        self._leaf("d", s[1])
        self._walk("e", s[-1])

    # ---- DSL side ----------------------------------------------------------
    def emit(self, e):
        for view, no, name in self.reginits:
            getattr(e, view)[no] = getattr(e, name)
        self.mark = len(e.opcodes)
        s = self.stmt
        val = self._dsl(e, "e", s[-1])
        d = self.info["d"]
        if s[0] == "set":
            self._assign(e, d, val)
        else:
            op = s[2]
            if d[0] == "var":
                cur = getattr(e, d[1])
                cur = self._iop(op, cur, val)
                setattr(e, d[1], cur)
            else:
                arr = getattr(e, d[1])
                cur = arr[d[2]]
                cur = self._iop(op, cur, val)
                arr[d[2]] = cur

    @staticmethod
    def _iop(op, cur, val):
        f = {"+": operator.iadd, "-": operator.isub, "*": operator.imul,
             "//": operator.ifloordiv, "%": operator.imod,
             "&": operator.iand, "|": operator.ior, "^": operator.ixor,
             "<<": operator.ilshift, ">>": operator.irshift,
             "/": operator.itruediv}[op]
        return f(cur, val)

    def _assign(self, e, d, val):
        if d[0] == "var":
            setattr(e, d[1], val)
        else:
            getattr(e, d[1])[d[2]] = val

    def _dsl(self, e, path, x):
        k = x[0]
        if k == "bin":
            return PYOPS[x[1]](self._dsl(e, path + "l", x[2]),
                               self._dsl(e, path + "r", x[3]))
        if k == "rbin":
            c, _ = const_value(x[2])
            return PYOPS[x[1]](c, self._dsl(e, path + "r", x[3]))
        if k == "neg":
            return -self._dsl(e, path + "a", x[1])
        if k == "abs":
            return abs(self._dsl(e, path + "a", x[1]))
        i = self.info[path]
        if i[0] == "var":
            return getattr(e, i[1])
        if i[0] == "reg":
            return getattr(e, i[1])[i[2]]
        return const_value(i[1])[0]

    # ---- addresses -----------------------------------------------------------
    def var_addr(self, e, name, maps):
        for n, storage, fmt in self.vars:
            if n == name:
                if storage == "L":
                    return FP + type(e).__dict__[name].relative_addr, fmt
                return maps[0].base + e.__dict__[name], fmt
        raise KeyError(name)


# --------------------------------------------------------------------------
# reference semantics
# --------------------------------------------------------------------------

class Val:
    """reference value: v = exact value mod 2^64; fs / fu: the exact value
    is the signed / unsigned reading of v; scale: 1 or FIXED (fixed point:
    v represents exact*FIXED, dropped)"""
    __slots__ = ("v", "fs", "fu", "signed", "fixed")

    def __init__(self, v, fs, fu, signed, fixed=False):
        self.v, self.fs, self.fu = v, fs, fu
        self.signed, self.fixed = signed, fixed


def leaf_val(raw, fmt):
    """raw: BV of 8*size bits read from memory"""
    size = SIZES[fmt]
    if fmt_signed(fmt):
        v = SignExt(64 - 8 * size, raw) if size < 8 else raw
        return Val(v, BoolVal(True), v >= 0, True, fmt == "x")
    v = ZeroExt(64 - 8 * size, raw) if size < 8 else raw
    return Val(v, v >= 0 if size == 8 else BoolVal(True), BoolVal(True), False)


def const_val(c):
    return Val(bv(c), BoolVal(-(1 << 63) <= c < (1 << 63)),
               BoolVal(0 <= c < (1 << 64)), c < 0)


class Ref:
    """evaluates a shape to a reference Val; collects the precondition of
    the width-sensitive nodes and the rounding choices"""

    def __init__(self, plan, leafvals, W):
        self.plan, self.leafvals, self.W = plan, leafvals, W
        self.pre = []         # conjuncts
        self.choices = []     # z3 Bool: True = truncate, False = floor
        self.sensitive = 0
        self.regions = {}     # known-defect region name -> [z3 Bool]

    def fitS(self, a):
        if self.W == 64:
            return a.fs
        return And(a.fs, SignExt(32, Extract(31, 0, a.v)) == a.v)

    def fitU(self, a):
        if self.W == 64:
            return a.fu
        return And(a.fu, ZeroExt(32, Extract(31, 0, a.v)) == a.v)

    def own(self, a):
        """the value fits W in the reading of its own type (both readings
        where the typing is ambiguous)"""
        if a.signed is True:
            return self.fitS(a)
        if a.signed is False:
            return self.fitU(a)
        return And(self.fitS(a), self.fitU(a))

    def both(self, a, b):
        """precondition of a two-operand width-sensitive operation: both
        operands fit W in the reading the operation is typed with (signed if
        either operand is signed; both readings if the typing is ambiguous)"""
        S = And(self.fitS(a), self.fitS(b))
        U = And(self.fitU(a), self.fitU(b))
        if a.signed is None or b.signed is None:
            return And(S, U), S, U
        if a.signed or b.signed:
            return S, S, U
        return U, S, U

    def ev(self, path, x):
        k = x[0]
        if k == "bin":
            return self.binop(x[1], self.ev(path + "l", x[2]),
                              self.ev(path + "r", x[3]), path)
        if k == "rbin":
            c, _ = const_value(x[2])
            return self.binop(x[1], const_val(c), self.ev(path + "r", x[3]),
                              path)
        if k == "R" and x[1] == "sw":
            lv = self.leafvals[path]
            self.regions.setdefault("sw_register_negative", []).append(lv.v < 0)
            return lv
        if k == "neg":
            a = self.ev(path + "a", x[1])
            MIN = bv(1 << 63)
            return Val(-a.v, Or(And(a.fs, a.v != MIN),
                                And(a.fu, z3.ULE(a.v, MIN))),
                       Or(And(a.fs, a.v <= 0), And(a.fu, a.v == 0)), True)
        if k == "abs":
            a = self.ev(path + "a", x[1])
            self.sensitive += 1
            S, U = self.fitS(a), self.fitU(a)
            self.pre.append(self.own(a))
            if a.signed is not True:
                self.regions.setdefault("abs_of_unsigned_with_top_bit", []) \
                    .append(Not(S))
            v = If(And(S, a.v < 0), -a.v, a.v)
            return Val(v, v >= 0, BoolVal(True), False)
        return self.leafvals[path]

    def binop(self, op, a, b, path):
        signed = a.signed or b.signed
        if a.signed is None or b.signed is None:
            signed = None
        if op == "+":
            return Val(a.v + b.v,
                       And(a.fs, b.fs, BVAddNoOverflow(a.v, b.v, True),
                           BVAddNoUnderflow(a.v, b.v)),
                       And(a.fu, b.fu, BVAddNoOverflow(a.v, b.v, False)),
                       signed)
        if op == "-":
            return Val(a.v - b.v,
                       And(a.fs, b.fs, BVSubNoOverflow(a.v, b.v),
                           BVSubNoUnderflow(a.v, b.v, True)),
                       And(a.fu, b.fu, BVSubNoUnderflow(a.v, b.v, False)),
                       signed)
        if op == "*":
            return Val(a.v * b.v,
                       And(a.fs, b.fs, BVMulNoOverflow(a.v, b.v, True),
                           BVMulNoUnderflow(a.v, b.v)),
                       And(a.fu, b.fu, BVMulNoOverflow(a.v, b.v, False)),
                       signed)
        if op in ("&", "|", "^"):
            f = {"&": operator.and_, "|": operator.or_,
                 "^": operator.xor}[op]
            # on infinite two's complement integers the result mod 2^64 is
            # f(a mod 2^64, b mod 2^64) whatever the readings
            v = f(a.v, b.v)
            if op == "&":
                # typing of & results is not defined by the statement (the
                # generator types them unsigned): ambiguous unless both
                # operands are unsigned
                sg = False if (a.signed is False and b.signed is False) \
                    else None
            else:
                sg = a.signed if a.signed == b.signed else None
            return Val(v, And(a.fs, b.fs), And(a.fu, b.fu), sg)
        if op == "<<":
            W = self.W
            self.pre.append(And(Or(b.fs, b.fu), ULT(b.v, bv(W))))
            v = a.v << b.v
            # typing of a shifted value when value and amount differ in
            # signedness is not defined by the statement: ambiguous
            return Val(v, And(a.fs, (v >> b.v) == a.v),
                       And(a.fu, LShR(v, b.v) == a.v),
                       a.signed if a.signed == b.signed else None)
        if op == ">>":
            self.sensitive += 1
            W = self.W
            S, U = self.fitS(a), self.fitU(a)
            self.pre.append(self.own(a))
            self.pre.append(And(Or(b.fs, b.fu), ULT(b.v, bv(W))))
            v = If(And(S, a.v < 0), a.v >> b.v, LShR(a.v, b.v))
            return Val(v, If(S, BoolVal(True), v >= 0),
                       If(S, v >= 0, BoolVal(True)), a.signed)
        if op in ("//", "%"):
            self.sensitive += 1
            p, S, U = self.both(a, b)
            self.pre.append(p)
            self.pre.append(b.v != 0)
            ch = z3.Bool(f"round_trunc_{path}")
            self.choices.append(ch)
            MIN = bv(1 << 63)
            ovf = And(a.v == MIN, b.v == bv(-1))
            # with both operands non-negative all readings coincide with the
            # unsigned operation; keep that case syntactically unsigned
            negcase = And(S, Or(a.v < 0, b.v < 0))
            self.regions.setdefault("signed_divmod_negative_operand", []) \
                .append(negcase)
            if op == "//":
                self.pre.append(Not(And(S, ovf)))
                trunc = a.v / b.v
                floor = If(And(z3.SRem(a.v, b.v) != 0,
                               (a.v < 0) != (b.v < 0)), trunc - 1, trunc)
                v = If(negcase, If(ch, trunc, floor), UDiv(a.v, b.v))
            else:
                trunc = If(ovf, bv(0), z3.SRem(a.v, b.v))
                floor = If(And(trunc != 0, (a.v < 0) != (b.v < 0)),
                           trunc + b.v, trunc)
                v = If(negcase, If(ch, trunc, floor), URem(a.v, b.v))
            return Val(v, If(S, BoolVal(True), v >= 0),
                       If(S, v >= 0, BoolVal(True)), signed)
        raise ValueError(op)


def stmt_width(plan):
    """32 if any variable/register operand or the destination is at most 4
    bytes wide, else 64 (constants have no width)"""
    for i in plan.info.values():
        if i[0] == "var" and SIZES[i[3]] <= 4:
            return 32
        if i[0] == "reg" and i[1] in ("w", "sw"):
            return 32
    return 64


def is_ring_only(x):
    k = x[0]
    if k == "bin":
        return x[1] in RING and is_ring_only(x[2]) and is_ring_only(x[3])
    if k == "rbin":
        return x[1] in RING and is_ring_only(x[3])
    if k == "neg":
        return is_ring_only(x[1])
    if k == "abs":
        return False
    return True


# --------------------------------------------------------------------------
# exact evaluation with Python integers (independent replay oracle)
# --------------------------------------------------------------------------

class Outside(Exception):
    """input outside the property's precondition"""


def _fitsS(v, W):
    return -(1 << (W - 1)) <= v < (1 << (W - 1))


def _fitsU(v, W):
    return 0 <= v < (1 << W)


def pyeval(x, path, leafints, W, consts_exact=True):
    """set of admissible exact integer results of shape x"""
    k = x[0]
    if k == "bin":
        A = pyeval(x[2], path + "l", leafints, W)
        B = pyeval(x[3], path + "r", leafints, W)
        return {r for a in A for b in B for r in _pybin(x[1], a, b, W)}
    if k == "rbin":
        c = x[2]
        B = pyeval(x[3], path + "r", leafints, W)
        return {r for b in B for r in _pybin(x[1], c, b, W)}
    if k == "neg":
        return {-a for a in pyeval(x[1], path + "a", leafints, W)}
    if k == "abs":
        out = set()
        for a in pyeval(x[1], path + "a", leafints, W):
            if not (_fitsS(a, W) or _fitsU(a, W)):
                raise Outside("abs operand")
            out.add(abs(a))
        return out
    if k == "C":
        return {x[1]}
    return {leafints[path]}


def _pybin(op, a, b, W):
    if op == "+":
        return {a + b}
    if op == "-":
        return {a - b}
    if op == "*":
        return {a * b}
    if op == "&":
        return {a & b}
    if op == "|":
        return {a | b}
    if op == "^":
        return {a ^ b}
    if op == "<<":
        if not 0 <= b < W:
            raise Outside("shift amount")
        return {a << b}
    if op == ">>":
        if not 0 <= b < W:
            raise Outside("shift amount")
        if not (_fitsS(a, W) or _fitsU(a, W)):
            raise Outside("shift operand")
        return {a >> b}
    if op in ("//", "%"):
        if b == 0:
            raise Outside("zero divisor")
        if not ((_fitsS(a, W) and _fitsS(b, W))
                or (_fitsU(a, W) and _fitsU(b, W))):
            raise Outside("division operands")
        fl = a // b
        tr = fl + 1 if (a % b != 0 and (a < 0) != (b < 0)) else fl
        if op == "//":
            return {fl, tr}
        return {a - fl * b, a - tr * b}
    raise ValueError(op)


def leaf_int(raw_bytes, fmt):
    v = int.from_bytes(raw_bytes, "little")
    bits = 8 * len(raw_bytes)
    if fmt_signed(fmt) and v >> (bits - 1):
        v -= 1 << bits
    return v
