"""build programs with the real ebpfcat DSL (imported from REPO's working
tree), with the kernel-object creating calls replaced by recording stubs."""
import sys

from . import common
from .bpfsym import MapInfo

common.use_repo()

import ebpfcat.arraymap as _am            # noqa: E402
import ebpfcat.hashmap as _hm             # noqa: E402
import ebpfcat.ebpf as ebpf               # noqa: E402
import ebpfcat.xdp as xdp                 # noqa: E402
from ebpfcat import bpf as _bpf           # noqa: E402
from ebpfcat.bpf import MapType, ProgType  # noqa: E402

if not ebpf.__file__.startswith(common.REPO + "/"):
    raise common.HarnessError(f"ebpfcat imported from {ebpf.__file__}")

KINDS = {MapType.ARRAY: "array", MapType.PERCPU_ARRAY: "percpu_array",
         MapType.HASH: "hash", MapType.LRU_HASH: "hash",
         MapType.PROG_ARRAY: "prog_array"}


REAL_MAPS = False        # C05: create the maps in the running kernel
_real_create_map = _bpf.create_map


class Registry:
    def __init__(self):
        self.maps = []

    def create_map(self, map_type, key_size, value_size, max_entries,
                   attributes=None):
        if REAL_MAPS:
            args = (map_type, key_size, value_size, max_entries) + \
                (() if attributes is None else (attributes,))
            fd = _real_create_map(*args)
        else:
            fd = len(self.maps) + 3
        self.maps.append(MapInfo(fd, KINDS[map_type], key_size, value_size,
                                 max_entries))
        self.maps[-1].real = REAL_MAPS
        return fd


REG = Registry()
ONLINE_CPUS = 4


def _create_map(*a, **k):
    return REG.create_map(*a, **k)


_am.create_map = _create_map
_hm.create_map = _create_map
_am.mmap = lambda fd, size: bytearray(size)
_am.cpu_count = lambda: ONLINE_CPUS
try:
    import ebpfcat.ebpfcat as _ec
    _ec.create_map = _create_map
except Exception:       # pragma: no cover
    _ec = None


def close_maps(reg=None):
    """close the kernel maps of a registry (REAL_MAPS mode)"""
    import os
    for m in (reg or REG).maps:
        if getattr(m, "real", False):
            try:
                os.close(m.fd)
            except OSError:
                pass
            m.real = False


def new_registry():
    global REG
    if REAL_MAPS:
        close_maps(REG)
    REG = Registry()
    return REG


def build(namespace, body, base=None, finish=True, kwargs=None):
    """create a program class with `namespace`, instantiate it, run
    body(e) to emit statements, append `r0 = 0; exit`, assemble.
    returns (instance, code bytes, maps)"""
    reg = new_registry()
    base = base or ebpf.EBPF
    cls = type("P", (base,), dict(namespace))
    if issubclass(cls, xdp.XDP):
        e = cls(license="GPL", **(kwargs or {}))
    else:
        e = cls(ProgType.XDP, "GPL", **(kwargs or {}))
    if body is not None:
        body(e)
    if finish:
        e.r0 = 0
        e.exit()
    code = e.assemble()
    return e, code, list(reg.maps)
from .bpfsym import FP as bpfsym_FP  # noqa
