"""CoE (CANopen over EtherCAT) mailbox server model, ETG.1000.6 section 5.6:
a protocol-conformant terminal that holds objects and answers SDO download /
upload requests (expedited, normal, segmented) through its two mailbox sync
managers.  Nondeterminism (response delay, choice of expedited vs normal
upload, unrelated mail) is decided by the engine."""
from . import busmodel, pysym
from .pysym import E, SInt, land, lnot, lor


class ProtocolError(Exception):
    """the master sent something a conformant terminal rejects"""


class CoETerminal(busmodel.TerminalModel):
    def __init__(self, out_sz, in_sz, out_off=0x1000, in_off=0x1080,
                 max_delay=1, unrelated_mail=False, position=1000,
                 delay_msgs=99):
        super().__init__("coe", position=position)
        self.out_off, self.out_sz = out_off, out_sz
        self.in_off, self.in_sz = in_off, in_sz
        self.max_delay = max_delay
        self.delay_msgs = delay_msgs
        self.ndelay = 0
        self.unrelated = unrelated_mail
        self.objects = {}            # (index, subindex|None) -> bytes-like
        self.stored = {}             # downloads received: key -> bytes-like
        self.pending_out = None      # master's message being written
        self.responses = []          # queue of (type, payload) to deliver
        self.polls = 0
        self.delay = 0
        self.counters = []           # mailbox counters seen
        self.messages = []           # (direction, length) of mailbox messages
        self.violations = []         # conformance problems of the master
        self.dl = None               # segmented download in progress
        self.ul = None               # segmented upload in progress
        self.toggles = []
        self.accept = []             # further object addresses (downloads)
        self.expect = None

    # -- register interface ------------------------------------------------
    def read(self, offset, n):
        if isinstance(offset, int) and offset == self.in_off:
            return self.read_mailbox(n)
        return super().read(offset, n)

    def write(self, offset, data):
        if isinstance(offset, int) and offset == self.out_off:
            self.log.append(("w", offset, data))
            self.pending_out = data
            return
        if isinstance(offset, int) and offset == self.out_off + self.out_sz - 1:
            self.log.append(("w", offset, data))
            msg, self.pending_out = self.pending_out, None
            if msg is not None:
                self.receive(msg)
            return
        return super().write(offset, data)

    def read_805(self, n):           # SM0 status: mailbox already fetched
        return bytes(n)

    def read_80d(self, n):           # SM1 status: bit 3 = mail available
        if self.responses:
            self.polls += 1
            if self.polls > self.delay:
                return bytes([8]) + bytes(n - 1)
        return bytes(n)

    def read_mailbox(self, n):
        if not self.responses:
            return E.bytes("stale_mailbox", n)
        typ, payload = self.responses.pop(0)
        self.polls = 0
        self.delay = self.pick_delay()
        ln = pysym.sym_len(payload)
        msg = pysym.sym_pack("<HHBB", ln, 0, 0, typ | 0x10) + payload
        self.messages.append(("in", ln + 6))
        pad = n - 6 - ln
        if isinstance(pad, SInt):
            pad = int(pad)
        return msg + E.bytes(f"pad{len(self.messages)}", max(0, pad))

    # -- mailbox protocol ---------------------------------------------------
    def receive(self, msg):
        total = pysym.sym_len(msg)
        dlen, addr, prio, typ = pysym.sym_unpack_from("<HHBB", msg, 0)
        self.messages.append(("out", dlen + 6))
        self.counters.append(int((typ >> 4) & 7))
        if self.responses:
            self.violations.append("a new request is written while the "
                                   "response to the previous one has not "
                                   "been fetched (exchanges interleave)")
        if not bool(dlen + 6 <= self.out_sz):
            raise busmodel.Rejected("mailbox message longer than the mailbox")
        if not bool(dlen + 6 == total):
            raise busmodel.Rejected("mailbox length field differs from the "
                                    "bytes written")
        if int(typ & 0xf) != 3:
            raise ProtocolError("not CoE")
        body = msg[6:]
        coe, = pysym.sym_unpack_from("<H", body, 0)
        service = int(coe >> 12)
        if service != 2:
            raise ProtocolError(f"CoE service {service}")
        cmd, = pysym.sym_unpack_from("<B", body, 2)
        cmd = int(cmd)
        ccs = cmd >> 5
        self.delay = self.pick_delay()
        if self.unrelated and bool(E.bool(f"unrelated{len(self.messages)}")):
            self.responses.append((2, E.bytes("eoe", 4)))      # EoE mail first
        if ccs == 1:
            self.download_init(cmd, body)
        elif ccs == 0:
            self.download_segment(cmd, body)
        elif ccs == 2:
            self.upload_init(cmd, body)
        elif ccs == 3:
            self.upload_segment(cmd, body)
        else:
            raise ProtocolError(f"sdo command {cmd:#x}")

    def pick_delay(self):
        self.ndelay += 1
        if self.ndelay > self.delay_msgs:
            return 0
        return int(E.int(f"delay{self.ndelay}", 0, self.max_delay))

    def addressed(self, index, sub, ca):
        """the harness declares which object is meant (self.expect =
        (index, subindex or None)); index/subindex stay symbolic"""
        if getattr(self, "expect", None) is None:
            # several objects with concrete addresses
            for (ki, ks) in list(self.objects) + list(self.accept):
                if bool(index == ki) and (ks is None) == ca and \
                        (ks is None or bool(sub == ks)):
                    return (ki, ks)
            raise busmodel.Rejected("request for an object that does not exist")
        ei, es = self.expect
        if not bool(index == ei):
            self.violations.append("request addresses another index")
        if ca != (es is None):
            self.violations.append("complete-access flag differs from the call")
        elif es is not None and not bool(sub == es):
            self.violations.append("request addresses another subindex")
        elif es is None and not bool(sub <= 1):
            self.violations.append("complete access must start at subindex 0/1")
        return "obj"

    def sdo_response(self, payload):
        self.responses.append((3, pysym.sym_pack("<H", 3 << 12) + payload))

    def download_init(self, cmd, body):
        index, sub = pysym.sym_unpack_from("<HB", body, 3)
        ca = bool(cmd & 0x10)
        key = self.addressed(index, sub, ca)
        if cmd & 2:                      # expedited
            n = 4 - ((cmd >> 2) & 3) if cmd & 1 else 4
            self.stored[key] = body[6:6 + n]
        else:
            if not cmd & 1:
                self.violations.append("normal download without size indication")
            size, = pysym.sym_unpack_from("<I", body, 6)
            frag = body[10:]
            got = pysym.sym_len(frag)
            if bool(size == got):
                self.stored[key] = frag
            elif bool(size > got):
                self.dl = dict(key=key, size=size, data=frag, toggle=0)
            else:
                self.violations.append(
                    "download: complete size smaller than the data sent")
                self.stored[key] = frag
        self.sdo_response(pysym.sym_pack("<BHB4x", 0x60, index, sub))

    def download_segment(self, cmd, body):
        if self.dl is None:
            self.violations.append("download segment without initiate")
            self.sdo_response(pysym.sym_pack("<BHB4x", 0x80, 0, 0))
            return
        toggle = (cmd >> 4) & 1
        self.toggles.append(toggle)
        if toggle != self.dl["toggle"]:
            self.violations.append("download segment toggle bit wrong")
        seg = body[3:]
        n = pysym.sym_len(seg)
        if bool(n == 7):
            seg = seg[:7 - ((cmd >> 1) & 7)]
        self.dl["data"] = self.dl["data"] + seg
        self.dl["toggle"] ^= 1
        if cmd & 1:
            self.stored[self.dl["key"]] = self.dl["data"]
            self.dl = None
        self.sdo_response(pysym.sym_pack("<B7x", 0x20 | toggle << 4)[:8])

    def upload_init(self, cmd, body):
        index, sub = pysym.sym_unpack_from("<HB", body, 3)
        ca = bool(cmd & 0x10)
        key = self.addressed(index, sub, ca)
        val = self.objects[key]
        L = pysym.sym_len(val)
        room = self.in_sz - 6 - 10
        if bool(L <= 4) and bool(E.bool("upload_expedited")):
            n = int(L)
            self.sdo_response(pysym.sym_pack("<BHB", 0x43 | (4 - n) << 2,
                                             index, sub)
                              + val + E.bytes("exp_pad", 4 - n))
            return
        first = val[:room] if bool(L > room) else val
        self.sdo_response(pysym.sym_pack("<BHBI", 0x41, index, sub, L) + first)
        if bool(L > room):
            self.ul = dict(rest=val[room:], toggle=0)

    def upload_segment(self, cmd, body):
        toggle = (cmd >> 4) & 1
        self.toggles.append(toggle)
        if self.ul is None:
            self.violations.append("upload segment request without pending "
                                   "upload")
            self.sdo_response(pysym.sym_pack("<BHB4x", 0x80, 0, 0))
            return
        if toggle != self.ul["toggle"]:
            self.violations.append("upload segment toggle bit wrong")
        room = self.in_sz - 6 - 3
        rest = self.ul["rest"]
        R = pysym.sym_len(rest)
        if bool(R > room):
            seg, self.ul["rest"] = rest[:room], rest[room:]
            last = 0
        else:
            seg, last = rest, 1
        n = pysym.sym_len(seg)
        self.ul["toggle"] ^= 1
        if last:
            self.ul = None
        if bool(n < 7):
            k = int(n)
            self.sdo_response(pysym.sym_pack("<B", toggle << 4 | (7 - k) << 1
                                             | last)
                              + seg + E.bytes(f"seg_pad{len(self.messages)}",
                                              7 - k))
        else:
            self.sdo_response(pysym.sym_pack("<B", toggle << 4 | last) + seg)
