"""bpfsym -- symbolic execution (z3 bit-vectors) of eBPF byte strings.

Input is the byte string returned by the real ``EBPF.assemble()``; it is
decoded here, so the generator's instruction encoding is covered as well.
The semantics follows the kernel's "BPF Instruction Set Architecture"
document and is written independently of ebpfcat/ebpf.py.

Execution mode: merged forward execution.  All programs the DSL can emit
are loop free with forward jumps only; instructions are visited in
increasing pc and the states arriving at a pc are merged with ``ite`` on
their guards.  The result is a list of guarded exits.  A backward jump is an
engine error.

Memory is one ``Array(BV64 -> BV8)``; regions live at fixed, far apart base
addresses.  Every access records a safety obligation (all bytes inside one
live region); every register read records an initialisation obligation.
"""
import struct
import z3
from z3 import (And, Array, BitVec, BitVecSort, BitVecVal, Bool, BoolVal,
                Concat, Extract, If, LShR, Not, Or, Select, SignExt, Store,
                UDiv, UGE, UGT, ULE, ULT, URem, ZeroExt, simplify)

M64 = (1 << 64) - 1

# region layout (all 8-aligned, > 2^40 apart)
CTX = 0x1000_0000_0000
PKT = 0x2000_0000_0000
MAPV = 0x3000_0000_0000      # value area of map fd:  MAPV + fd * 2^32
MAPSTRIDE = 1 << 32
MAPPTR = 0x4d41_5000_0000    # pseudo map pointer constant: MAPPTR + fd
FP = 0x7000_0000_0000        # frame pointer; stack is [FP-512, FP)
STACK = 512

ALU = {0x0: 'add', 0x1: 'sub', 0x2: 'mul', 0x3: 'div', 0x4: 'or', 0x5: 'and',
       0x6: 'lsh', 0x7: 'rsh', 0x8: 'neg', 0x9: 'mod', 0xa: 'xor',
       0xb: 'mov', 0xc: 'arsh', 0xd: 'end'}
JMP = {0x0: 'ja', 0x1: 'jeq', 0x2: 'jgt', 0x3: 'jge', 0x4: 'jset',
       0x5: 'jne', 0x6: 'jsgt', 0x7: 'jsge', 0x8: 'call', 0x9: 'exit',
       0xa: 'jlt', 0xb: 'jle', 0xc: 'jslt', 0xd: 'jsle'}
SZ = {0x00: 4, 0x08: 2, 0x10: 1, 0x18: 8}

# number of argument registers read by the helpers we model
HELPER_ARGS = {1: 2, 2: 4, 3: 2, 5: 0, 7: 0, 12: 3}


class EngineError(Exception):
    """the engine met something it does not model: never a pass"""


def bv(v, w=64):
    return BitVecVal(v & ((1 << w) - 1), w)


def decode(code):
    """bytes -> list of (opcode, dst, src, off, imm) with kernel widths"""
    if len(code) % 8:
        raise EngineError("program length not a multiple of 8")
    out = []
    for i in range(0, len(code), 8):
        opc, regs, off, imm = struct.unpack_from("<BBhi", code, i)
        out.append((opc, regs & 15, regs >> 4, off, imm))
    return out


def disasm(insns):
    out = []
    for pc, (opc, dst, src, off, imm) in enumerate(insns):
        cls = opc & 7
        if cls in (4, 7):
            op = ALU.get(opc >> 4, '?')
            w = '' if cls == 7 else '32'
            rhs = f"r{src}" if opc & 8 else str(imm)
            if op == 'end':
                s = f"{'be' if opc & 8 else 'le'}{imm} r{dst}"
            elif op == 'neg':
                s = f"neg{w} r{dst}"
            else:
                s = f"{op}{w} r{dst}, {rhs}" + (" (signed)" if off == 1 else "")
        elif cls == 0:
            if opc == 0x18:
                s = f"lddw r{dst}, {'map_fd ' if src == 1 else ''}{imm & 0xffffffff:#x}"
            else:
                s = f"(imm64 hi {imm & 0xffffffff:#x})"
        elif cls == 1:
            s = f"ldx{SZ[opc & 0x18] * 8} r{dst}, [r{src}{off:+d}]"
        elif cls == 2:
            s = f"st{SZ[opc & 0x18] * 8} [r{dst}{off:+d}], {imm}"
        elif cls == 3:
            a = "xadd" if opc & 0xe0 == 0xc0 else "stx"
            s = f"{a}{SZ[opc & 0x18] * 8} [r{dst}{off:+d}], r{src}"
        else:
            op = JMP.get(opc >> 4, '?')
            w = '' if cls == 5 else '32'
            if op == 'exit':
                s = "exit"
            elif op == 'call':
                s = f"call {imm}"
            elif op == 'ja':
                s = f"ja {pc + 1 + off}"
            else:
                rhs = f"r{src}" if opc & 8 else str(imm)
                s = f"{op}{w} r{dst}, {rhs} -> {pc + 1 + off}"
        out.append(f"{pc:3}: {s}")
    return out


def alu(op, a, b, w, off=0):
    if op == 'add':
        return a + b
    if op == 'sub':
        return a - b
    if op == 'mul':
        return a * b
    if op == 'div':
        if off == 1:
            return If(b == 0, bv(0, w),
                      If(And(a == bv(1 << (w - 1), w), b == bv(-1, w)), a,
                         a / b))
        if off != 0:
            raise EngineError("bad div offset")
        return If(b == 0, bv(0, w), UDiv(a, b))
    if op == 'mod':
        if off == 1:
            return If(b == 0, a,
                      If(And(a == bv(1 << (w - 1), w), b == bv(-1, w)),
                         bv(0, w), z3.SRem(a, b)))
        if off != 0:
            raise EngineError("bad mod offset")
        return If(b == 0, a, URem(a, b))
    if op == 'or':
        return a | b
    if op == 'and':
        return a & b
    if op == 'xor':
        return a ^ b
    if op == 'lsh':
        return a << (b & (w - 1))
    if op == 'rsh':
        return LShR(a, b & (w - 1))
    if op == 'arsh':
        return a >> (b & (w - 1))
    if op == 'neg':
        return -a
    raise EngineError(f"alu op {op}")


def jcond(op, a, b):
    if op == 'jeq':
        return a == b
    if op == 'jne':
        return a != b
    if op == 'jgt':
        return UGT(a, b)
    if op == 'jge':
        return UGE(a, b)
    if op == 'jlt':
        return ULT(a, b)
    if op == 'jle':
        return ULE(a, b)
    if op == 'jsgt':
        return a > b
    if op == 'jsge':
        return a >= b
    if op == 'jslt':
        return a < b
    if op == 'jsle':
        return a <= b
    if op == 'jset':
        return (a & b) != 0
    raise EngineError(f"jmp op {op}")


def load(mem, addr, size):
    bs = [Select(mem, addr + bv(i)) for i in range(size)]
    v = bs[0]
    for b in bs[1:]:
        v = Concat(b, v)
    return v


def store(mem, addr, size, val):
    for i in range(size):
        mem = Store(mem, addr + bv(i), Extract(8 * i + 7, 8 * i, val))
    return mem


def rsel(mem, addr, _memo=None):
    """select(mem, addr) for a constant address, resolved through ite and
    store structure (z3's simplifier does not push selects through ites of
    arrays)"""
    memo = {} if _memo is None else _memo
    key = mem.get_id()
    if key in memo:
        return memo[key][1]
    k = mem.decl().kind() if z3.is_app(mem) else None
    if k == z3.Z3_OP_ITE:
        r = If(mem.arg(0), rsel(mem.arg(1), addr, memo),
               rsel(mem.arg(2), addr, memo))
    elif k == z3.Z3_OP_STORE:
        j = const_of(mem.arg(1))
        if j is None:
            r = Select(mem, bv(addr))
        elif j == addr:
            r = mem.arg(2)
        else:
            r = rsel(mem.arg(0), addr, memo)
    else:
        r = Select(mem, bv(addr))
    memo[key] = (mem, r)
    return r


def rload(mem, addr, size):
    """little-endian load at a constant address via rsel"""
    bs = [rsel(mem, addr + i) for i in range(size)]
    v = bs[0]
    for b in bs[1:]:
        v = Concat(b, v)
    return v


def const_of(t):
    t = simplify(t)
    if z3.is_bv_value(t):
        return t.as_long()
    return None


class MapInfo:
    def __init__(self, fd, kind, key_size, value_size, max_entries):
        self.fd, self.kind = fd, kind
        self.key_size, self.value_size = key_size, value_size
        self.max_entries = max_entries

    @property
    def base(self):
        return MAPV + self.fd * MAPSTRIDE

    @property
    def area(self):
        """size of the modelled value area"""
        if self.kind in ("array", "percpu_array"):
            return self.value_size * self.max_entries
        if self.kind == "hash" and self.key_size == 1:
            return 256 * self.value_size          # one cell per 1-byte key
        if self.kind == "hash":
            return self.value_size * self.slots
        return 0

    slots = 3


class State:
    __slots__ = ("regs", "init", "mem", "aux")

    def __init__(self, regs, init, mem, aux=None):
        self.regs, self.init, self.mem = regs, init, mem
        self.aux = aux or {}

    def copy(self):
        return State(list(self.regs), list(self.init), self.mem,
                     dict(self.aux))


class Exit:
    """one guarded way of leaving the program"""
    def __init__(self, guard, kind, state, pc, info=None):
        self.guard, self.kind, self.state, self.pc = guard, kind, state, pc
        self.info = info


class Env:
    """execution environment: maps, packet, helper models, obligations"""

    def __init__(self, maps=(), prefix="", pkt_max=1 << 14):
        self.maps = {m.fd: m for m in maps}
        self.prefix = prefix
        self.pkt_len = BitVec(prefix + "pkt_len", 64)
        self.assumptions = [ULE(self.pkt_len, bv(pkt_max))]
        self.safety = []      # (pc, guard, ok_condition, text)
        self.inits = []       # (pc, guard, init_condition, text)
        self.fresh_no = 0
        self.calls = []       # log of helper calls (pc, guard, name, args)
        self.hash_present = {}   # fd -> Array(BV8 -> Bool) as z3 function
        self.tail_registered = z3.Function(
            prefix + "tail_registered", BitVecSort(64), z3.BoolSort())
        self.ktime_last = None

    def fresh(self, name, w=64):
        self.fresh_no += 1
        return BitVec(f"{self.prefix}{name}!{self.fresh_no}", w)

    # -- regions ---------------------------------------------------------
    def regions(self):
        """list of (lo, hi) z3 terms of the data regions a program may touch"""
        r = [(bv(FP - STACK), bv(FP)), (bv(PKT), bv(PKT) + self.pkt_len)]
        for m in self.maps.values():
            if m.area:
                r.append((bv(m.base), bv(m.base + m.area)))
        return r

    def in_region(self, addr, size):
        conds = []
        for lo, hi in self.regions():
            conds.append(And(UGE(addr, lo), ULE(addr + bv(size), hi),
                             ULE(addr, addr + bv(size))))
        return Or(*conds)

    # -- initial state -----------------------------------------------------
    def initial(self, mem=None, regs=None):
        p = self.prefix
        if mem is None:
            mem = Array(p + "mem", BitVecSort(64), BitVecSort(8))
        r = [BitVec(f"{p}r{i}_0", 64) for i in range(11)]
        init = [BoolVal(False)] * 11
        r[1] = bv(CTX)
        r[10] = bv(FP)
        init[1] = init[10] = BoolVal(True)
        if regs:
            for k, v in regs.items():
                r[k] = v
                init[k] = BoolVal(True)
        return State(r, init, mem)

    # -- helpers -------------------------------------------------------------
    def helper(self, no, st, guard, pc, exits):
        nargs = HELPER_ARGS.get(no)
        if nargs is None:
            raise EngineError(f"helper {no} not modelled")
        for i in range(1, nargs + 1):
            self.inits.append((pc, guard, st.init[i], f"call {no} reads r{i}"))
        regs = st.regs
        r0 = None
        if no == 1:      # map_lookup_elem
            m = self._map(regs[1], pc)
            self.safety.append((pc, guard, self._stack_arg(regs[2], m.key_size),
                                f"lookup key buffer r2 ({m.key_size} bytes)"))
            key = load(st.mem, regs[2], m.key_size)
            if m.kind in ("array", "percpu_array"):
                if m.key_size != 4:
                    raise EngineError("array map key size")
                r0 = If(ULT(key, bv(m.max_entries, 32)),
                        bv(m.base) + ZeroExt(32, key) * bv(m.value_size),
                        bv(0))
            elif m.kind == "hash" and m.key_size == 1:
                pres = self._present(m, st)
                r0 = If(Select(pres, key),
                        bv(m.base) + ZeroExt(56, key) * bv(m.value_size),
                        bv(0))
            elif m.kind == "hash":
                r0 = self._dict_lookup(m, st, key)
            else:
                raise EngineError(f"lookup on map kind {m.kind}")
            self.calls.append((pc, guard, "map_lookup_elem", (m.fd, key)))
        elif no == 2:    # map_update_elem
            m = self._map(regs[1], pc)
            self.safety.append((pc, guard, self._stack_arg(regs[2], m.key_size),
                                f"update key buffer r2 ({m.key_size} bytes)"))
            self.safety.append((pc, guard,
                                self.in_region(regs[3], m.value_size),
                                f"update value buffer r3 ({m.value_size} bytes)"))
            key = load(st.mem, regs[2], m.key_size)
            val = load(st.mem, regs[3], m.value_size)
            if m.kind == "hash" and m.key_size == 1:
                pres = self._present(m, st)
                st.aux[("present", m.fd)] = Store(pres, key, BoolVal(True))
                st.mem = store(st.mem, bv(m.base) + ZeroExt(56, key)
                               * bv(m.value_size), m.value_size, val)
                r0 = bv(0)
            elif m.kind == "hash":
                r0 = self._dict_update(m, st, key, val, regs[4])
            elif m.kind in ("array", "percpu_array"):
                idx = key
                ok = ULT(idx, bv(m.max_entries, 32))
                newmem = store(st.mem, bv(m.base) + ZeroExt(32, idx)
                               * bv(m.value_size), m.value_size, val)
                st.mem = If(ok, newmem, st.mem)
                r0 = If(ok, bv(0), bv(-7))
            else:
                raise EngineError(f"update on map kind {m.kind}")
            self.calls.append((pc, guard, "map_update_elem",
                               (m.fd, key, val, regs[4])))
        elif no == 3:    # map_delete_elem
            m = self._map(regs[1], pc)
            self.safety.append((pc, guard, self._stack_arg(regs[2], m.key_size),
                                f"delete key buffer r2 ({m.key_size} bytes)"))
            key = load(st.mem, regs[2], m.key_size)
            if m.kind == "hash" and m.key_size == 1:
                pres = self._present(m, st)
                r0 = If(Select(pres, key), bv(0), bv(-2))
                st.aux[("present", m.fd)] = Store(pres, key, BoolVal(False))
            else:
                raise EngineError("delete on this map kind not modelled")
            self.calls.append((pc, guard, "map_delete_elem", (m.fd, key)))
        elif no == 5:    # ktime_get_ns: non-decreasing
            r0 = self.fresh("ktime")
            if self.ktime_last is not None:
                self.assumptions.append(UGE(r0, self.ktime_last))
            self.ktime_last = r0
            self.calls.append((pc, guard, "ktime_get_ns", ()))
        elif no == 7:    # get_prandom_u32
            r0 = ZeroExt(32, self.fresh("prandom", 32))
            self.calls.append((pc, guard, "get_prandom_u32", (r0,)))
        elif no == 12:   # tail_call(ctx, prog_array, index)
            m = self._map(regs[2], pc)
            if m.kind != "prog_array":
                raise EngineError("tail_call on non prog array")
            idx = ZeroExt(32, Extract(31, 0, regs[3]))
            taken = And(ULT(idx, bv(m.max_entries)), self.tail_registered(idx))
            self.safety.append((pc, guard, regs[1] == bv(CTX),
                                "tail_call ctx argument is the context"))
            exits.append(Exit(simplify(And(guard, taken)), "tail_call",
                              st.copy(), pc, info=idx))
            guard = simplify(And(guard, Not(taken)))
            r0 = self.fresh("tail_fail")
            self.calls.append((pc, guard, "tail_call", (m.fd, idx)))
        st.regs = list(st.regs)
        st.init = list(st.init)
        st.regs[0] = r0
        st.init[0] = BoolVal(True)
        for i in range(1, 6):
            st.regs[i] = self.fresh(f"clobber_r{i}")
            st.init[i] = BoolVal(False)
        return guard

    def _map(self, reg, pc):
        c = const_of(reg)
        if c is None or not (MAPPTR <= c < MAPPTR + (1 << 20)):
            raise EngineError(f"pc {pc}: map argument is not a map pointer")
        fd = c - MAPPTR
        if fd not in self.maps:
            raise EngineError(f"pc {pc}: unknown map fd {fd}")
        return self.maps[fd]

    def _stack_arg(self, addr, size):
        return And(UGE(addr, bv(FP - STACK)), ULE(addr + bv(size), bv(FP)),
                   ULE(addr, addr + bv(size)))

    def _present(self, m, st):
        k = ("present", m.fd)
        if k not in st.aux:
            st.aux[k] = Array(f"{self.prefix}present_{m.fd}", BitVecSort(8),
                              z3.BoolSort())
        return st.aux[k]

    # Dict maps: bounded slot table; slot i has a valid bit, a key and its
    # value bytes live in the map's value area at base + i*value_size.
    def _slots(self, m, st):
        k = ("slots", m.fd)
        if k not in st.aux:
            st.aux[k] = [(Bool(f"{self.prefix}slot{m.fd}_{i}_valid"),
                          BitVec(f"{self.prefix}slot{m.fd}_{i}_key",
                                 8 * m.key_size)) for i in range(m.slots)]
            # representation invariant: valid slots hold distinct keys
            s = st.aux[k]
            for i in range(len(s)):
                for j in range(i):
                    self.assumptions.append(
                        Not(And(s[i][0], s[j][0], s[i][1] == s[j][1])))
        return st.aux[k]

    def _dict_lookup(self, m, st, key):
        r0 = bv(0)
        for i, (valid, k) in reversed(list(enumerate(self._slots(m, st)))):
            r0 = If(And(valid, k == key), bv(m.base + i * m.value_size), r0)
        return r0

    def _dict_update(self, m, st, key, val, flags):
        slots = self._slots(m, st)
        hit = [And(v, k == key) for v, k in slots]
        anyhit = Or(*hit)
        free = []
        prev_used = BoolVal(True)
        for v, k in slots:
            free.append(And(prev_used, Not(v)))
            prev_used = And(prev_used, v)
        full = prev_used
        noexist = (flags & 3) == 1
        exist = (flags & 3) == 2
        fail = Or(And(anyhit, noexist), And(Not(anyhit), exist),
                  And(Not(anyhit), full))
        new = []
        mem = st.mem
        for i, (v, k) in enumerate(slots):
            write = And(Not(fail), Or(hit[i], And(Not(anyhit), free[i])))
            new.append((Or(v, write), If(write, key, k)))
            mem = If(write, store(mem, bv(m.base + i * m.value_size),
                                  m.value_size, val), mem)
        st.aux[("slots", m.fd)] = new
        st.mem = mem
        return If(fail, self.fresh("update_err") | bv(1 << 63), bv(0))


def merge(items):
    g0, s0 = items[0]
    if len(items) == 1:
        return g0, s0
    regs, init, mem, g = list(s0.regs), list(s0.init), s0.mem, g0
    aux = dict(s0.aux)
    for gi, si in items[1:]:
        regs = [r if r.eq(q) else If(gi, q, r) for r, q in zip(regs, si.regs)]
        init = [r if r.eq(q) else If(gi, q, r) for r, q in zip(init, si.init)]
        mem = mem if mem.eq(si.mem) else If(gi, si.mem, mem)
        for k in set(aux) | set(si.aux):
            a, b = aux.get(k), si.aux.get(k)
            if a is None:
                aux[k] = b
            elif b is None or (not isinstance(a, list) and a.eq(b)):
                pass
            elif isinstance(a, list):
                aux[k] = [(If(gi, bv_, av) if not av.eq(bv_) else av,
                           If(gi, bk, ak) if not ak.eq(bk) else ak)
                          for (av, ak), (bv_, bk) in zip(a, b)]
            else:
                aux[k] = If(gi, b, a)
        g = Or(g, gi)
    return simplify(g), State([simplify(r) for r in regs],
                              [simplify(i) for i in init], mem, aux)


def run(insns, env, state=None, start_guard=None):
    """merged forward execution; returns list of Exit"""
    n = len(insns)
    if state is None:
        state = env.initial()
    incoming = {0: [(start_guard if start_guard is not None
                     else BoolVal(True), state)]}
    exits = []
    shl_note = {}   # ast id of a register value -> (y, k): value == y << k

    for pc in range(n):
        if pc not in incoming:
            continue
        g, s = merge(incoming.pop(pc))
        if z3.is_false(g):
            continue
        opc, dst, src, off, imm = insns[pc]
        cls = opc & 7
        st = s.copy()
        regs, init = st.regs, st.init

        def go(to, gg, state_):
            if to <= pc:
                raise EngineError(f"pc {pc}: backward jump to {to}")
            if to >= n:
                raise EngineError(f"pc {pc}: jump target {to} outside program")
            if not z3.is_false(gg):
                incoming.setdefault(to, []).append((gg, state_))

        def rd(r, what):
            if r > 10:
                raise EngineError(f"pc {pc}: register r{r}")
            env.inits.append((pc, g, init[r], f"{what} reads r{r}"))

        if dst > 10 or src > 10:
            raise EngineError(f"pc {pc}: bad register number")

        if cls in (4, 7):
            w = 64 if cls == 7 else 32
            op = ALU.get(opc >> 4)
            if op is None:
                raise EngineError(f"pc {pc}: alu opcode {opc:#x}")
            if dst == 10:
                raise EngineError(f"pc {pc}: write to frame pointer")
            if op == 'end':
                if cls != 4 or imm not in (16, 32, 64):
                    raise EngineError(f"pc {pc}: bad endian instruction")
                rd(dst, "end")
                v = Extract(imm - 1, 0, regs[dst])
                if opc & 8:
                    bs = [Extract(8 * i + 7, 8 * i, v) for i in range(imm // 8)]
                    v = Concat(*bs) if len(bs) > 1 else bs[0]
                r = ZeroExt(64 - imm, v) if imm < 64 else v
            elif op == 'mov':
                if opc & 8:
                    rd(src, "mov")
                    b = regs[src]
                    if off in (8, 16, 32):
                        b = SignExt(64 - off, Extract(off - 1, 0, b))
                    elif off != 0:
                        raise EngineError(f"pc {pc}: bad mov offset")
                else:
                    b = SignExt(32, bv(imm, 32))
                r = b if w == 64 else ZeroExt(32, Extract(31, 0, b))
            else:
                rd(dst, op)
                a = regs[dst] if w == 64 else Extract(31, 0, regs[dst])
                if op == 'neg':
                    b = None
                elif opc & 8:
                    rd(src, op)
                    b = regs[src] if w == 64 else Extract(31, 0, regs[src])
                else:
                    b = SignExt(32, bv(imm, 32)) if w == 64 else bv(imm, 32)
                r = None
                # normalise the generator's shift-pair idioms
                if op in ('arsh', 'rsh') and not (opc & 8):
                    note = shl_note.get(regs[dst].get_id())
                    k = imm & (w - 1)
                    if note is not None and note[1] == k and note[2] == w \
                            and 0 < k < w:
                        low = Extract(w - 1 - k, 0, note[0])
                        r = SignExt(k, low) if op == 'arsh' else ZeroExt(k, low)
                        if w == 32:
                            r = ZeroExt(32, r)
                if r is None:
                    r = alu(op, a, b, w, off)
                    if w == 32:
                        r = ZeroExt(32, r)
            r = simplify(r)
            if op == 'lsh' and not (opc & 8):
                # (keep r referenced: z3 reuses ast ids of dead terms)
                shl_note[r.get_id()] = (regs[dst], imm & (w - 1), w, r)
            regs[dst] = r
            init[dst] = BoolVal(True)
            go(pc + 1, g, st)
        elif cls == 0:
            if opc != 0x18:
                if opc == 0 and pc > 0 and insns[pc - 1][0] == 0x18:
                    raise EngineError(f"pc {pc}: fell into second half of lddw")
                raise EngineError(f"pc {pc}: ld opcode {opc:#x}")
            if pc + 1 >= n or insns[pc + 1][0] != 0:
                raise EngineError(f"pc {pc}: lddw pair broken")
            lo = imm & 0xffffffff
            hi = insns[pc + 1][4] & 0xffffffff
            if src == 1:
                regs[dst] = bv(MAPPTR + lo)
            elif src == 0:
                regs[dst] = bv(lo | hi << 32)
            else:
                raise EngineError(f"pc {pc}: lddw src {src}")
            init[dst] = BoolVal(True)
            if pc + 2 >= n:
                raise EngineError(f"pc {pc}: program ends after lddw")
            go(pc + 2, g, st)
        elif cls == 1:
            if opc & 0xe0 != 0x60:
                raise EngineError(f"pc {pc}: ldx mode {opc:#x}")
            size = SZ[opc & 0x18]
            rd(src, "ldx")
            addr = simplify(regs[src] + bv(off))
            c = const_of(addr)
            if c is not None and CTX <= c < CTX + 24:
                # struct xdp_md: data, data_end (32 bit fields, rewritten by
                # the verifier into pointer loads)
                if size != 4 or c - CTX not in (0, 4):
                    env.safety.append((pc, g, BoolVal(False),
                                       f"ctx access offset {c - CTX} size {size}"))
                    v = env.fresh("ctxfield")
                elif c - CTX == 0:
                    v = bv(PKT)
                else:
                    v = bv(PKT) + env.pkt_len
                regs[dst] = v
            else:
                env.safety.append((pc, g, env.in_region(addr, size),
                                   f"load {size} bytes"))
                v = load(st.mem, addr, size)
                regs[dst] = simplify(ZeroExt(64 - 8 * size, v) if size < 8 else v)
            init[dst] = BoolVal(True)
            if dst == 10:
                raise EngineError(f"pc {pc}: write to frame pointer")
            go(pc + 1, g, st)
        elif cls in (2, 3):
            size = SZ[opc & 0x18]
            mode = opc & 0xe0
            rd(dst, "store address")
            addr = simplify(regs[dst] + bv(off))
            if cls == 2:
                if mode != 0x60:
                    raise EngineError(f"pc {pc}: st mode {opc:#x}")
                val = SignExt(32, bv(imm, 32))
            else:
                rd(src, "stx")
                val = regs[src]
            val = Extract(8 * size - 1, 0, val)
            if mode == 0xc0:
                if cls != 3 or size not in (4, 8) or imm != 0:
                    raise EngineError(f"pc {pc}: atomic op not modelled")
                val = load(st.mem, addr, size) + val
            elif mode != 0x60:
                raise EngineError(f"pc {pc}: store mode {opc:#x}")
            env.safety.append((pc, g, env.in_region(addr, size),
                               f"store {size} bytes"))
            st.mem = store(st.mem, addr, size, simplify(val))
            go(pc + 1, g, st)
        else:
            op = JMP.get(opc >> 4)
            if op is None:
                raise EngineError(f"pc {pc}: jmp opcode {opc:#x}")
            if op == 'exit':
                rd(0, "exit")
                exits.append(Exit(g, "exit", st, pc))
            elif op == 'call':
                g2 = env.helper(imm, st, g, pc, exits)
                if pc + 1 >= n:
                    raise EngineError("program ends with call")
                go(pc + 1, g2, st)
            elif op == 'ja':
                if cls != 5:
                    raise EngineError("ja32 not modelled")
                go(pc + 1 + off, g, st)
            else:
                w = 64 if cls == 5 else 32
                rd(dst, op)
                a = regs[dst] if w == 64 else Extract(31, 0, regs[dst])
                if opc & 8:
                    rd(src, op)
                    b = regs[src] if w == 64 else Extract(31, 0, regs[src])
                else:
                    b = SignExt(32, bv(imm, 32)) if w == 64 else bv(imm, 32)
                c = simplify(jcond(op, a, b))
                go(pc + 1 + off, simplify(And(g, c)), st)
                go(pc + 1, simplify(And(g, Not(c))), st.copy())
        if pc == n - 1 and cls not in (5, 6):
            raise EngineError("control falls off the end of the program")
    if incoming:
        raise EngineError(f"unprocessed targets {sorted(incoming)}")
    return exits


def merged_exit(exits, kinds=("exit",)):
    """merge all exits of the given kinds into one (guard, state)"""
    items = [(e.guard, e.state) for e in exits if e.kind in kinds]
    if not items:
        return None
    return merge(items)
