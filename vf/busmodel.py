"""protocol models (stubs in the sense of the brief: nondeterministic within
the documented contract) used by the engine-B harnesses.

The bus model sits at the datagram interface of the real master: it consumes
the real EtherCat.send_queue entries produced by the real `roundtrip`
(command, payload bytes, index, address, future) and completes the future
with the response payload, or with EtherCatError when no terminal processed
the datagram (working counter 0).
"""
import asyncio

from . import pysym
from .pysym import E, SInt

READS = {"APRD", "FPRD", "BRD", "LRD"}
WRITES = {"APWR", "FPWR", "BWR", "LWR"}


class Rejected(Exception):
    """a protocol-conformant terminal cannot accept what the master sent"""


class TerminalModel:
    """register space of an EtherCAT slave controller; unmodelled registers
    read as fresh symbolic bytes"""

    def __init__(self, name, position=0):
        self.name = name
        self.position = position      # configured station address (0x10)
        self.log = []                 # ("r"/"w", offset, data)
        self.fresh = 0
        self.mem = {}                 # offset -> byte (int or proxy)

    def read(self, offset, n):
        self.log.append(("r", offset, n))
        h = getattr(self, f"read_{offset:x}", None) if isinstance(offset, int) \
            else None
        if h is not None:
            return h(n)
        if isinstance(n, int) and isinstance(offset, int) and \
                all((offset + i) in self.mem for i in range(n)):
            return pysym.sym_bytes([self.mem[offset + i] for i in range(n)]) \
                if not E.concrete else bytes(self.mem[offset + i] for i in range(n))
        self.fresh += 1
        return E.bytes(f"{self.name}_reg{self.fresh}", n)

    def write(self, offset, data):
        self.log.append(("w", offset, data))
        h = getattr(self, f"write_{offset:x}", None) if isinstance(offset, int) \
            else None
        if h is not None:
            return h(data)
        if isinstance(offset, int):
            n = pysym.sym_len(data)
            if isinstance(n, int):
                for i in range(n):
                    self.mem[offset + i] = data[i]
        return None

    # station address register
    def read_10(self, n):
        return pysym.sym_pack("<H", self.position)[:n] if n <= 2 else \
            pysym.sym_pack("<H", self.position) + bytes(n - 2)

    def write_10(self, data):
        self.position, = pysym.sym_unpack_from("<H", data, 0)


class Bus:
    def __init__(self, eth, terminals):
        self.eth = eth
        self.terminals = terminals
        self.trace = []

    def find(self, cmd, pos):
        name = cmd.name
        if name[0] == "A":            # auto increment: pos counts down from 0
            for i, t in enumerate(self.terminals):
                if pos == -i:
                    return t
            return None
        if name[0] == "F":
            for t in self.terminals:
                if t.position == pos:
                    return t
            return None
        raise NotImplementedError(name)

    def handle(self, cmd, out, idx, pos, offset):
        """-> response payload or None (not processed)"""
        t = self.find(cmd, pos)
        self.trace.append((cmd.name, pos, offset, out))
        if t is None:
            return None
        if cmd.name in READS:
            r = t.read(offset, pysym.sym_len(out))
            return r
        if cmd.name in WRITES:
            t.write(offset, out)
            return out
        raise NotImplementedError(cmd.name)

    async def serve(self, ec):
        """answer datagram requests in order (the real master's send queue)"""
        while True:
            cmd, out, idx, pos, offset, future = await ec.send_queue.get()
            if future.done():
                continue
            try:
                r = self.handle(cmd, out, idx, pos, offset)
            except Rejected as ex:
                future.set_exception(ex)
                continue
            if r is None:
                future.set_exception(
                    self.eth.EtherCatError("datagram was not processed"))
            else:
                future.set_result(r)


def make_ec(eth, cls=None):
    ec = (cls or eth.EtherCat)("verif0")
    ec.send_queue = asyncio.Queue()
    return ec


async def with_bus(ec, bus, coro):
    """run coro while the bus model serves the send queue"""
    srv = asyncio.ensure_future(bus.serve(ec))
    try:
        return await coro
    finally:
        srv.cancel()
