"""runner for engine-B harnesses: explore, replay counterexamples on the
pristine package, collect results in the common format"""
import traceback

from . import common, pysym
from .pysym import E, Abort, Unwind


def guarded(fn, expected=()):
    """wrap a harness: an exception escaping the code under test on a
    feasible path is a failed obligation (replayable), unless listed"""
    def h():
        try:
            fn()
        except (Abort, Unwind):
            raise
        except expected:
            pass
        except BaseException as ex:
            if pysym.PENDING["kind"] is not None or not isinstance(ex, Exception):
                raise
            tb = traceback.extract_tb(ex.__traceback__)
            where = ""
            for fr in reversed(tb):
                if "/ebpfcat/" in fr.filename:
                    where = f" at {fr.filename.split('/')[-1]}:{fr.lineno}"
                    break
            E.fail(f"unexpected {type(ex).__name__}{where}: {str(ex)[:80]}")
    return h


def run(pid, name, fn, res, maxpaths=20000, maxtime=None, sig=None,
        expected=()):
    """explore harness fn (no arguments); fill the result dict"""
    h = guarded(fn, expected)
    st = pysym.explore(h, maxpaths=maxpaths, maxtime=maxtime)
    res["states"] += st["paths"] + st["aborted"]
    res["transitions"] += st["decisions"]
    res["obligations"] += st["obligations"]
    res["queries"] = res.get("queries", 0) + st["queries"]
    res["solver_s"] = res.get("solver_s", 0.0) + st["solver_s"]
    failed = 0
    seen = set()
    results = list(E.results)
    for r in results:
        if r["kind"] == "UNKNOWN":
            res["undecided"] += 1
            res["undecided_list"].append(f"{name}: {r['what']}")
            failed += 1
            continue
        if r["kind"] == "UNWIND":
            res["errors"].append(f"{name}: unwinding bound: {r['what']}")
            continue
        failed += 1
        key = r["what"]
        if key in seen:
            continue
        seen.add(key)
        m = r["model"]
        inputs = {k: E.value(m, v) for k, v in r["inputs"].items()}
        rr = pysym.replay(h, inputs, r["choices"])
        res["replayed"] += 1
        bad = [x for x in rr if x["kind"] == "CEX"]
        shown = {k: (v.hex() if isinstance(v, (bytes, bytearray)) else v)
                 for k, v in inputs.items()}
        if not bad:
            res["errors"].append(
                f"{name}: counterexample for '{key}' did not reproduce on "
                f"the real code with inputs {shown} ({rr})")
            continue
        what = bad[0]["what"]
        signature = f"{pid}|{sig(what) if sig else what}"
        res["violations"].append(dict(
            signature=signature,
            what=f"{name}: {what} with inputs {shown}"
                 + (f", decisions {r['choices']}" if r["choices"] else ""),
            witness=dict(inputs=shown, choices=r["choices"],
                         notes=r["notes"], symbolic_obligation=key),
            replay=dict(harness=name, inputs=shown, choices=r["choices"])))
    res["discharged"] += st["obligations"] - failed
    st["name"] = name
    return st


def new_res():
    return dict(obligations=0, discharged=0, undecided=0, programs=0,
                replayed=0, states=0, transitions=0, samples=[],
                violations=[], errors=[], undecided_list=[], vacuity=[],
                queries=0, solver_s=0.0)
