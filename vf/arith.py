"""UF abstraction of expensive bit-vector arithmetic, with valid lemma
instances.

Non-constant multiplications, divisions and remainders are replaced by
uninterpreted functions; instances of *valid* bit-vector facts are added as
axioms.  `unsat` of the abstracted query implies `unsat` of the exact query
(every model of the exact query extends to a model of the abstraction because
all axioms are valid for the real operations).  `sat` under abstraction is
inconclusive and never reported.

The lemma schemas are themselves discharged once per run by
`prove_lemmas()` (cvc5 integer encoding / z3), so they are not trusted.
"""
import z3
from z3 import (And, BitVecSort, BitVecVal, Extract, Function, Implies, Not,
                Or, SignExt, UGT, ZeroExt)

K = z3
OPS = {
    z3.Z3_OP_BMUL: "mul", z3.Z3_OP_BUDIV: "udiv", z3.Z3_OP_BUDIV_I: "udiv",
    z3.Z3_OP_BSDIV: "sdiv", z3.Z3_OP_BSDIV_I: "sdiv",
    z3.Z3_OP_BUREM: "urem", z3.Z3_OP_BUREM_I: "urem",
    z3.Z3_OP_BSREM: "srem", z3.Z3_OP_BSREM_I: "srem",
}
PREDS = {z3.Z3_OP_BSMUL_NO_OVFL: "smul_noovfl",
         z3.Z3_OP_BSMUL_NO_UDFL: "smul_noudfl",
         z3.Z3_OP_BUMUL_NO_OVFL: "umul_noovfl"}
_UF = {}
_UP = {}


def upred(name, w):
    k = (name, w)
    if k not in _UP:
        _UP[k] = Function(f"{name}{w}", BitVecSort(w), BitVecSort(w),
                          z3.BoolSort())
    return _UP[k]


def uf(name, w):
    k = (name, w)
    if k not in _UF:
        _UF[k] = Function(f"{name}{w}", BitVecSort(w), BitVecSort(w),
                          BitVecSort(w))
    return _UF[k]


def abstract(formulas):
    """-> (abstracted formulas, axioms)"""
    memo = {}
    apps = {}     # (name, w) -> list of (a, b, term)
    napp_pred = [0]

    def mk(name, a, b):
        w = a.size()
        t = uf(name, w)(a, b)
        apps.setdefault((name, w), []).append((a, b, t))
        return t

    def walk(t):
        i = t.get_id()
        if i in memo:
            return memo[i][1]
        if z3.is_app(t) and t.num_args() > 0:
            kids = [walk(c) for c in t.children()]
            k = t.decl().kind()
            name = OPS.get(k)
            if name == "mul":
                consts = [c for c in kids if z3.is_bv_value(c)]
                rest = [c for c in kids if not z3.is_bv_value(c)]
                if len(rest) >= 2:
                    r = rest[0]
                    for c in rest[1:]:
                        r = mk("mul", r, c)
                    for c in consts:
                        r = c * r
                else:
                    r = kids[0]
                    for c in kids[1:]:
                        r = r * c
            elif k in PREDS and not (z3.is_bv_value(kids[0])
                                     or z3.is_bv_value(kids[1])):
                # multiplication overflow predicates: uninterpreted (sound
                # for unsat; they only restrict the inputs)
                r = upred(PREDS[k], kids[0].size())(kids[0], kids[1])
                napp_pred[0] += 1
            elif name is not None and not z3.is_bv_value(kids[1]):
                r = mk(name, kids[0], kids[1])
            elif name is not None:
                r = t.decl()(*kids)
            else:
                r = t.decl()(*kids) if any(
                    not a.eq(b) for a, b in zip(kids, t.children())) else t
        else:
            r = t
        memo[i] = (t, r)       # keep t alive: z3 reuses ids of dead terms
        return r

    out = [walk(z3.simplify(f)) for f in formulas]
    ax = []
    # commutativity of multiplication between distinct applications
    for (name, w), lst in apps.items():
        if name == "mul":
            for i in range(len(lst)):
                for j in range(i):
                    a, b, t = lst[i]
                    c, d, u = lst[j]
                    ax.append(Implies(And(a == d, b == c), t == u))
    # low bits of a product are the product of the low bits (z3's
    # simplifier pushes extract[k:0] into multiplications, creating
    # multiplications of other widths)
    muls = [(w, lst) for (name, w), lst in apps.items() if name == "mul"]
    for w1, l1 in muls:
        for w2, l2 in muls:
            if w1 < w2 and (w1, w2) in MUL_PAIRS:
                for a1, b1, t1 in l1:
                    for a2, b2, t2 in l2:
                        la, lb = Extract(w1 - 1, 0, a2), Extract(w1 - 1, 0, b2)
                        ax.append(Implies(Or(And(la == a1, lb == b1),
                                             And(la == b1, lb == a1)),
                                          Extract(w1 - 1, 0, t2) == t1))
    # width transfer 64 -> 32 and signed/unsigned agreement
    for (name, w), lst in list(apps.items()):
        for a, b, t in lst:
            if name in ("udiv", "urem", "sdiv", "srem"):
                ax.append(INST[name + "_su"](a, b, t, w))
            if w == 64 and name != "mul":
                ax.append(INST[name + "_w"](a, b, t))
    return out, ax, sum(len(v) for v in apps.values()) + napp_pred[0]


WIDTHS = (8, 16, 24, 32, 40, 48, 56, 64)
MUL_PAIRS = {(a, b) for a in WIDTHS for b in WIDTHS if a < b}


def _lo(x):
    return Extract(31, 0, x)


def _fitu(x):
    return ZeroExt(32, _lo(x)) == x


def _fits(x):
    return SignExt(32, _lo(x)) == x


def _ovf(x, y, w):
    return And(x == BitVecVal(1 << (w - 1), w), y == BitVecVal(-1, w))


# instance builders; f64/f32 are either the UFs (abstraction) or the real
# operations (when the schema is proved)
def _inst(real=False):
    def op(name, w):
        if not real:
            return uf(name, w)
        return {"mul": lambda a, b: a * b, "udiv": z3.UDiv,
                "urem": z3.URem, "sdiv": lambda a, b: a / b,
                "srem": z3.SRem}[name]

    d = {}
    d["mul_w"] = lambda a, b, t: _lo(t) == op("mul", 32)(_lo(a), _lo(b))
    d["udiv_w"] = lambda a, b, t: Implies(
        And(_fitu(a), _fitu(b), b != 0),
        t == ZeroExt(32, op("udiv", 32)(_lo(a), _lo(b))))
    d["urem_w"] = lambda a, b, t: Implies(
        And(_fitu(a), _fitu(b), b != 0),
        t == ZeroExt(32, op("urem", 32)(_lo(a), _lo(b))))
    d["sdiv_w"] = lambda a, b, t: Implies(
        And(_fits(a), _fits(b), b != 0, Not(_ovf(_lo(a), _lo(b), 32))),
        t == SignExt(32, op("sdiv", 32)(_lo(a), _lo(b))))
    d["srem_w"] = lambda a, b, t: Implies(
        And(_fits(a), _fits(b), b != 0, Not(_ovf(_lo(a), _lo(b), 32))),
        t == SignExt(32, op("srem", 32)(_lo(a), _lo(b))))
    # signed and unsigned operation agree on non-negative operands
    d["sdiv_su"] = lambda a, b, t, w: Implies(
        And(a >= 0, b > 0), t == op("udiv", w)(a, b))
    d["udiv_su"] = lambda a, b, t, w: Implies(
        And(a >= 0, b > 0), t == op("sdiv", w)(a, b))
    d["srem_su"] = lambda a, b, t, w: Implies(
        And(a >= 0, b > 0), t == op("urem", w)(a, b))
    d["urem_su"] = lambda a, b, t, w: Implies(
        And(a >= 0, b > 0), t == op("srem", w)(a, b))
    return d


INST = _inst(False)


def lemma_schemas():
    """the schemas instantiated above, over the real operations, negated:
    each must be unsat.  The width-transfer schemas are stated over 32-bit
    variables x, y with a = ext(x), b = ext(y), which is what the guard
    `ext(lo a) == a` of the instances says."""
    out = {}
    x, y = z3.BitVecs("lx ly", 32)
    a, b = z3.BitVecs("la lb", 64)
    for w1, w2 in sorted(MUL_PAIRS):
        p, q = z3.BitVecs(f"lm{w2}a lm{w2}b", w2)
        out[f"mul_low{w1}of{w2}"] = Extract(w1 - 1, 0, p * q) != \
            Extract(w1 - 1, 0, p) * Extract(w1 - 1, 0, q)
    zx, zy, sx_, sy = ZeroExt(32, x), ZeroExt(32, y), SignExt(32, x), SignExt(32, y)
    out["udiv_w"] = And(y != 0, z3.UDiv(zx, zy) != ZeroExt(32, z3.UDiv(x, y)))
    out["urem_w"] = And(y != 0, z3.URem(zx, zy) != ZeroExt(32, z3.URem(x, y)))
    out["sdiv_w"] = And(y != 0, Not(_ovf(x, y, 32)),
                        (sx_ / sy) != SignExt(32, x / y))
    out["srem_w"] = And(y != 0, Not(_ovf(x, y, 32)),
                        z3.SRem(sx_, sy) != SignExt(32, z3.SRem(x, y)))
    for w in (32, 64):
        p, q = z3.BitVecs(f"lp{w} lq{w}", w)
        out[f"div_su{w}"] = And(p >= 0, q > 0, (p / q) != z3.UDiv(p, q))
        out[f"rem_su{w}"] = And(p >= 0, q > 0, z3.SRem(p, q) != z3.URem(p, q))
    return out
