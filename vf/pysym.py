"""pysym -- symbolic execution of the real Python code of /repo/ebpfcat.

* The package source is re-read from REPO on every run, passed through a tiny
  AST pass and executed as the shadow package ``ebpfcat_sym`` whose modules
  have their own ``__builtins__`` (symbolic-aware len/isinstance/...), and
  whose struct functions are replaced by a z3 model.
* Values: SInt (z3 BV64, signed reading), SBool (forks on __bool__), SBytes
  (rope of byte-term segments and symbolic-length blobs), SByteArray.
* Exploration: DART-style re-execution with a growing decision prefix; every
  decision is checked for feasibility with an incremental z3 solver that
  carries the path condition.  ``choose(n)`` is an n-ary decision (schedules,
  faults).  ``prove`` discharges an obligation under the path condition.
* Concrete twin: the same harness runs against the pristine ``ebpfcat``
  package with the model's values and the recorded decisions (replay).
"""
import ast
import builtins
import importlib.abc
import importlib.util
import os
import struct as _struct
import sys
import time
import types

import z3

from . import common

W = 64


PENDING = {"kind": None, "msg": ""}


class Abort(BaseException):
    """path infeasible or cut (BaseException: not caught by `except Exception`)"""

    def __init__(self, *a):
        super().__init__(*a)
        # asyncio may swallow or wrap the exception (tasks, TaskGroup): the
        # engine also looks at this flag when a path ends
        if PENDING["kind"] is None:
            PENDING["kind"] = "abort"


class Unwind(BaseException):
    """decision/concretisation bound exceeded: reported, never a pass"""

    def __init__(self, *a):
        super().__init__(*a)
        PENDING["kind"] = "unwind"
        PENDING["msg"] = str(a[0]) if a else ""


def bvv(v, w=W):
    return z3.BitVecVal(v, w)


# ---------------------------------------------------------------------------
# engine
# ---------------------------------------------------------------------------
class Engine:
    def __init__(self):
        self.concrete = False
        self.nq = 0
        self.tq = 0.0
        self.max_decisions = 4000
        self.reset_run()

    def reset_run(self):
        self.stack = []
        self.nq = 0
        self.tq = 0.0
        self.results = []       # failed / undecided obligations
        self.proved = 0
        self.obligations = 0
        self.paths = 0
        self.aborted = 0
        self.unwound = 0
        self.decisions_total = 0
        self.inputs = {}
        self.overflow = []

    # -- one path ---------------------------------------------------------
    def start(self):
        self.pos = 0             # position in the persistent decision stack
        self.solver = z3.Solver()
        self.solver.set("timeout", 20_000)
        self.choices = []        # values of choose() on this path (replay)
        self.inputs = {}
        self.overflow = []
        self.notes = []

    def _check(self, *cs):
        self.nq += 1
        t = time.time()
        self.solver.push()
        self.solver.add(*cs)
        r = self.solver.check()
        m = self.solver.model() if r == z3.sat else None
        self.solver.pop()
        if r == z3.unknown:
            # the incremental solver gave up: one-shot solver (full
            # preprocessing) on the same assertions, larger budget
            s2 = z3.Solver()
            s2.set("timeout", 300_000)
            s2.add(*self.solver.assertions())
            s2.add(*cs)
            r = s2.check()
            m = s2.model() if r == z3.sat else None
        self.tq += time.time() - t
        return r, m

    def feasible(self, c):
        return self._check(c)[0] == z3.sat

    def _decide(self, alternatives):
        """alternatives: list of (value, z3 cond or None); returns value.
        self.stack persists across re-executions: [value, untried values]"""
        i = self.pos
        if i >= self.max_decisions:
            raise Unwind(f"more than {self.max_decisions} decisions on a path")
        if i < len(self.stack):
            v = self.stack[i][0]
            self.pos += 1
            for val, c in alternatives:
                if val == v:
                    if c is not None:
                        self.solver.add(c)
                    return v
            raise Abort()
        feas = []
        for val, c in alternatives:
            if c is None or self.feasible(c):
                feas.append((val, c))
        if not feas:
            raise Abort()
        v, c = feas[0]
        self.stack.append([v, [x for x, _ in feas[1:]]])
        self.pos += 1
        if c is not None:
            self.solver.add(c)
        self.decisions_total += 1
        return v

    def branch(self, c):
        if isinstance(c, bool):
            return c
        c = z3.simplify(c)
        if z3.is_true(c):
            return True
        if z3.is_false(c):
            return False
        return self._decide([(True, c), (False, z3.Not(c))])

    def choose(self, n, label=""):
        """n-ary decision explored exhaustively"""
        if self.concrete:
            v = self.replay_choices.pop(0) if self.replay_choices else 0
            return v
        if n <= 1:
            v = 0
        else:
            v = self._decide([(k, None) for k in range(n)])
        self.choices.append(v)
        return v

    def next_prefix(self):
        t = self.stack
        while t and not t[-1][1]:
            t.pop()
        if not t:
            return False
        t[-1][0] = t[-1][1].pop(0)
        return True

    # -- harness api -------------------------------------------------------
    def assume(self, c):
        if self.concrete:
            if not c:
                raise Abort()
            return
        c = c.e if isinstance(c, SBool) else c
        if isinstance(c, bool):
            if not c:
                raise Abort()
            return
        self.solver.add(c)
        if self.solver.check() != z3.sat:
            raise Abort()

    def prove(self, c, what=""):
        """obligation under the current path; records a failure"""
        self.obligations += 1
        if self.concrete:
            ok = bool(c)
            if ok:
                self.proved += 1
            else:
                self.results.append(dict(kind="CEX", what=what))
            return ok
        if isinstance(c, SBool):
            c = c.e
        if isinstance(c, bool):
            c = z3.BoolVal(c)
        c = z3.simplify(c)
        if z3.is_true(c):
            self.proved += 1
            return True
        r, m = self._check(z3.Not(c))
        if r == z3.unsat:
            self.proved += 1
            return True
        if r == z3.sat:
            self.results.append(dict(
                kind="CEX", what=what, model=m, choices=list(self.choices),
                inputs=dict(self.inputs), notes=list(self.notes),
                decisions=[v for v, _ in self.stack[:self.pos]]))
        else:
            self.results.append(dict(kind="UNKNOWN", what=what))
        return False

    def fail(self, what):
        """an unconditional failure on this (feasible) path"""
        return self.prove(False, what)

    def note(self, s):
        self.notes.append(s)

    def value(self, m, x):
        """concrete python value of a proxy under model m"""
        if isinstance(x, SInt):
            return m.eval(x.e, model_completion=True).as_signed_long()
        if isinstance(x, SBool):
            return z3.is_true(m.eval(x.e, model_completion=True))
        if isinstance(x, (SBytes, SByteArray)):
            return x.concrete(m)
        if isinstance(x, (list, tuple)):
            return type(x)(self.value(m, y) for y in x)
        if isinstance(x, dict):
            return {k: self.value(m, v) for k, v in x.items()}
        return x

    # -- inputs --------------------------------------------------------------
    def int(self, name, lo=None, hi=None, bits=W, signed=False):
        if self.concrete:
            # inputs created after the failing obligation are unconstrained
            return self.replay_inputs.get(name, lo or 0)
        raw = z3.BitVec(name, bits)
        e = raw if bits == W else (z3.SignExt(W - bits, raw) if signed
                                   else z3.ZeroExt(W - bits, raw))
        v = SInt(e)
        if lo is not None:
            self.solver.add(e >= lo)
        if hi is not None:
            self.solver.add(e <= hi)
        self.inputs[name] = v
        return v

    def bool(self, name):
        if self.concrete:
            return self.replay_inputs.get(name, False)
        v = SBool(z3.Bool(name))
        self.inputs[name] = v
        return v

    def bytes(self, name, length):
        """symbolic content; length int or SInt"""
        if self.concrete:
            v = self.replay_inputs.get(name)
            return v if v is not None else builtins.bytes(length)
        if isinstance(length, SInt):
            v = SBytes([Blob(name, bvv(0), length.e)])
        else:
            v = SBytes([[z3.BitVec(f"{name}_{i}", 8) for i in range(length)]])
        self.inputs[name] = v
        return v


E = Engine()


def explore(harness, maxpaths=20000, maxtime=None):
    """run harness() over all paths; returns stats dict"""
    E.reset_run()
    E.concrete = False
    t0 = time.time()
    while True:
        E.start()
        PENDING["kind"] = None
        try:
            try:
                harness()
            except BaseException:
                if PENDING["kind"] is None:
                    raise
            if PENDING["kind"] == "abort":
                raise Abort()
            if PENDING["kind"] == "unwind":
                raise Unwind(PENDING["msg"])
            E.paths += 1
        except Abort:
            E.aborted += 1
            # obligations recorded on a path that turned out infeasible do
            # not count
        except Unwind as ex:
            E.unwound += 1
            E.results.append(dict(kind="UNWIND", what=str(ex)))
        if not E.next_prefix():
            exhausted = True
            break
        if E.paths + E.aborted >= maxpaths or \
                (maxtime and time.time() - t0 > maxtime):
            exhausted = False
            E.results.append(dict(kind="UNWIND",
                                  what="path budget exhausted before the "
                                       "exploration was complete"))
            break
    return dict(paths=E.paths, aborted=E.aborted, unwound=E.unwound,
                decisions=E.decisions_total, obligations=E.obligations,
                proved=E.proved, queries=E.nq, solver_s=round(E.tq, 2),
                wall=round(time.time() - t0, 2), exhausted=exhausted)


def replay(harness, inputs, choices):
    """concrete twin: run the harness with concrete inputs and recorded
    decisions; returns list of failed obligations"""
    E.concrete = True
    E.replay_inputs = dict(inputs)
    E.replay_choices = list(choices)
    E.results = []
    E.obligations = E.proved = 0
    try:
        harness()
    except Abort:
        E.results.append(dict(kind="ABORT", what="replay left the precondition"))
    finally:
        E.concrete = False
    return list(E.results)


# ---------------------------------------------------------------------------
# proxies
# ---------------------------------------------------------------------------
def lift(x):
    if isinstance(x, SInt):
        return x.e
    if isinstance(x, SBool):
        return z3.If(x.e, bvv(1), bvv(0))
    if isinstance(x, bool):
        return bvv(int(x))
    if isinstance(x, int):
        return bvv(x)
    return None


class SBool:
    def __init__(self, e):
        self.e = e

    def __bool__(self):
        return E.branch(self.e)

    def __and__(self, o):
        o = o.e if isinstance(o, SBool) else z3.BoolVal(bool(o))
        return SBool(z3.And(self.e, o))
    __rand__ = __and__

    def __or__(self, o):
        if isinstance(o, (SInt, int)) and not isinstance(o, bool):
            return SInt(lift(self)) | o
        o = o.e if isinstance(o, SBool) else z3.BoolVal(bool(o))
        return SBool(z3.Or(self.e, o))
    __ror__ = __or__

    def __invert__(self):
        return SInt(lift(self)).__invert__()

    def __lshift__(self, n):
        return SInt(lift(self)) << n

    def __index__(self):
        return int(bool(self))

    def __eq__(self, o):
        if isinstance(o, SBool):
            return SBool(self.e == o.e)
        if isinstance(o, bool):
            return SBool(self.e if o else z3.Not(self.e))
        return SInt(lift(self)) == o

    def __ne__(self, o):
        r = self.__eq__(o)
        return SBool(z3.Not(r.e))
    __hash__ = None

    def __repr__(self):
        return "<symbool>"


def _floordiv(a, b):
    q = a / b
    return z3.If(z3.And(z3.SRem(a, b) != 0, (a < 0) != (b < 0)), q - 1, q)


class SInt:
    def __init__(self, e):
        self.e = z3.simplify(e)

    def _b(op):
        def f(self, o):
            o = lift(o)
            return NotImplemented if o is None else SInt(op(self.e, o))

        def r(self, o):
            o = lift(o)
            return NotImplemented if o is None else SInt(op(o, self.e))
        return f, r
    __add__, __radd__ = _b(lambda a, b: a + b)
    __sub__, __rsub__ = _b(lambda a, b: a - b)
    __mul__, _rmul = _b(lambda a, b: a * b)
    __and__, __rand__ = _b(lambda a, b: a & b)
    __or__, __ror__ = _b(lambda a, b: a | b)
    __xor__, __rxor__ = _b(lambda a, b: a ^ b)
    __lshift__, __rlshift__ = _b(lambda a, b: a << b)
    __rshift__, __rrshift__ = _b(lambda a, b: a >> b)
    __floordiv__, __rfloordiv__ = _b(_floordiv)
    __mod__, __rmod__ = _b(lambda a, b: a - _floordiv(a, b) * b)

    def __rmul__(self, o):
        if isinstance(o, (bytes, bytearray)):
            if len(o) != 1:
                raise NotImplementedError("bytes * symbolic with len != 1")
            return SBytes([Blob(None, bvv(0), self.e, fill=o[0])])
        if isinstance(o, SBytes):
            raise NotImplementedError
        return self._rmul(o)

    def __truediv__(self, o):
        v = z3.simplify(self.e)
        if z3.is_bv_value(v) and isinstance(o, (int, float)):
            return v.as_signed_long() / o        # constant: plain Python
        raise NotImplementedError("true division of a symbolic int")

    def _c(op):
        def f(self, o):
            o = lift(o)
            return NotImplemented if o is None else SBool(op(self.e, o))
        return f
    __lt__ = _c(lambda a, b: a < b)
    __le__ = _c(lambda a, b: a <= b)
    __gt__ = _c(lambda a, b: a > b)
    __ge__ = _c(lambda a, b: a >= b)
    __eq__ = _c(lambda a, b: a == b)
    __ne__ = _c(lambda a, b: a != b)

    def __neg__(self):
        return SInt(-self.e)

    def __pos__(self):
        return self

    def __invert__(self):
        return SInt(~self.e)

    def __abs__(self):
        return SInt(z3.If(self.e < 0, -self.e, self.e))

    def __bool__(self):
        return E.branch(self.e != 0)

    def concretize(self, cap=300):
        """case split over the feasible values (bounded)"""
        if z3.is_bv_value(self.e):
            return self.e.as_signed_long()
        for _ in range(cap):
            r, m = E._check()
            if r != z3.sat:
                raise Abort()
            v = m.eval(self.e, model_completion=True).as_signed_long()
            if E.branch(self.e == v):
                self.e = bvv(v)
                return v
        raise Unwind("more than %d values in a case split" % cap)

    def __index__(self):
        return self.concretize()

    def __hash__(self):
        return hash(self.concretize())

    def __int__(self):
        return self.concretize()

    def __format__(self, spec):
        return "<sym>"

    def __repr__(self):
        return f"SInt({self.e})"
    __str__ = __repr__


class Blob:
    """segment of symbolic length: byte i is arr[off+i] (or a fill byte)"""

    def __init__(self, name, off, length, fill=None, arr=None):
        self.name = name
        self.off, self.length, self.fill = z3.simplify(off), z3.simplify(length), fill
        if arr is not None:
            self.arr = arr
        elif fill is None:
            self.arr = z3.Array(name, z3.BitVecSort(W), z3.BitVecSort(8))
        else:
            self.arr = None

    def at(self, rel):
        if self.fill is not None:
            return z3.BitVecVal(self.fill, 8)
        return self.arr[z3.simplify(self.off + rel)]

    def sub(self, rel, ln):
        return Blob(self.name, self.off + rel, ln, self.fill, self.arr)


class SBytes:
    """immutable rope"""

    def __init__(self, segs):
        out = []
        for s in segs:
            if isinstance(s, list):
                if not s:
                    continue
                if out and isinstance(out[-1], list):
                    out[-1] = out[-1] + s
                    continue
            elif z3.is_bv_value(s.length) and s.length.as_long() == 0:
                continue
            out.append(s)
        self.segs = out

    @staticmethod
    def of(x):
        if isinstance(x, SBytes):
            return x
        if isinstance(x, SByteArray):
            return x.rope
        return SBytes([[z3.BitVecVal(b, 8) for b in bytes(x)]])

    @staticmethod
    def seglen(s):
        return bvv(len(s)) if isinstance(s, list) else s.length

    def length(self):
        t = bvv(0)
        for s in self.segs:
            t = t + self.seglen(s)
        return SInt(t)

    def is_concrete_len(self):
        return all(isinstance(s, list) for s in self.segs)

    def __len__(self):
        return self.length().concretize()

    def __add__(self, o):
        if not isinstance(o, (bytes, bytearray, SBytes, SByteArray)):
            return NotImplemented
        return SBytes(self.segs + SBytes.of(o).segs)

    def __radd__(self, o):
        if not isinstance(o, (bytes, bytearray, SBytes, SByteArray)):
            return NotImplemented
        return SBytes(SBytes.of(o).segs + self.segs)

    @staticmethod
    def join(parts):
        out = []
        for p in parts:
            out += SBytes.of(p).segs
        return SBytes(out)

    def split(self, pos):
        """(left segs, right segs) at position pos (z3 term, 0<=pos<=len)"""
        pos = z3.simplify(pos)
        acc = bvv(0)
        left = []
        for k, s in enumerate(self.segs):
            ln = self.seglen(s)
            if E.branch(z3.ULT(pos, acc + ln)):
                rel = z3.simplify(pos - acc)
                if isinstance(s, list):
                    if not z3.is_bv_value(rel):
                        rel = bvv(SInt(rel).concretize(cap=len(s) + 2))
                    r = rel.as_long()
                    return left + [s[:r]], [s[r:]] + self.segs[k + 1:]
                return (left + [s.sub(bvv(0), rel)],
                        [s.sub(rel, ln - rel)] + self.segs[k + 1:])
            left.append(s)
            acc = z3.simplify(acc + ln)
        return left, []

    def byte_at(self, pos):
        """byte term at position pos (z3 term, 0 <= pos < len assumed);
        built as one ite term over the segments: no forking"""
        pos = z3.simplify(pos)
        acc = bvv(0)
        pieces = []          # (upper bound, term)
        for s in self.segs:
            ln = self.seglen(s)
            rel = z3.simplify(pos - acc)
            if isinstance(s, list):
                if z3.is_bv_value(rel):
                    r = rel.as_signed_long()
                    t = s[r] if 0 <= r < len(s) else None
                else:
                    t = s[-1]
                    for i in range(len(s) - 2, -1, -1):
                        t = z3.If(rel == i, s[i], t)
            else:
                t = s.at(rel)
            acc = z3.simplify(acc + ln)
            if t is not None:
                pieces.append((acc, t))
        if not pieces:
            raise IndexError("index out of range")
        out = pieces[-1][1]
        for ub, t in reversed(pieces[:-1]):
            out = z3.If(pos < ub, t, out)
        return z3.simplify(out)

    def __getitem__(self, k):
        if isinstance(k, slice):
            if k.step not in (None, 1):
                raise NotImplementedError("slice step")
            n = self.length().e

            def norm(v, d):
                if v is None:
                    return d
                v = lift(v)
                v = z3.If(v < 0, v + n, v)
                return z3.simplify(z3.If(v > n, n, z3.If(v < 0, bvv(0), v)))
            a = norm(k.start, bvv(0))
            b = norm(k.stop, n)
            if E.branch(b <= a):
                return SBytes([])
            l, _ = self.split(b)
            _, r = SBytes(l).split(a)
            return SBytes(r)
        k = lift(k)
        n = self.length().e
        k = z3.If(k < 0, k + n, k)
        if not E.branch(z3.And(k >= 0, k < n)):
            raise IndexError("index out of range")
        return SInt(z3.ZeroExt(W - 8, self.byte_at(z3.simplify(k))))

    def __iter__(self):
        n = len(self)
        for i in range(n):
            yield self[i]

    def __eq__(self, o):
        if not isinstance(o, (bytes, bytearray, SBytes, SByteArray)):
            return False
        o = SBytes.of(o)
        if not E.branch(self.length().e == o.length().e):
            return False
        n = len(self)
        cs = [self.byte_at(bvv(i)) == o.byte_at(bvv(i)) for i in range(n)]
        return bool(SBool(z3.And(*cs))) if cs else True

    def __ne__(self, o):
        return not self.__eq__(o)
    __hash__ = None

    def __bool__(self):
        return E.branch(self.length().e != 0)

    def decode(self, *a):
        return "<symstr>"

    def concrete(self, m):
        out = bytearray()
        for s in self.segs:
            if isinstance(s, list):
                out += bytes(m.eval(b, model_completion=True).as_long() for b in s)
            else:
                n = m.eval(s.length, model_completion=True).as_signed_long()
                for i in range(max(0, n)):
                    out.append(m.eval(s.at(bvv(i)), model_completion=True).as_long())
        return bytes(out)

    def __repr__(self):
        return f"<symbytes {len(self.segs)} segs>"


class SByteArray:
    """mutable view: holds a rope, item/slice assignment rebuilds it"""

    def __init__(self, x=b""):
        if isinstance(x, (int, SInt)):
            n = x
            self.rope = SBytes.of(bytes(n)) if isinstance(n, int) \
                else SBytes([Blob(None, bvv(0), n.e, fill=0)])
        else:
            self.rope = SBytes.of(x)

    def length(self):
        return self.rope.length()

    def __len__(self):
        return len(self.rope)

    def __getitem__(self, k):
        r = self.rope[k]
        return SByteArray(r) if isinstance(r, SBytes) else r

    def __setitem__(self, k, v):
        n = self.rope.length().e
        if isinstance(k, slice):
            if k.step not in (None, 1):
                raise NotImplementedError
            a = bvv(0) if k.start is None else lift(k.start)
            b = n if k.stop is None else lift(k.stop)
            l, _ = self.rope.split(a)
            _, r = self.rope.split(b)
            self.rope = SBytes(l + SBytes.of(v).segs + r)
            return
        k = lift(k)
        k = z3.simplify(z3.If(k < 0, k + n, k))
        if not E.branch(z3.And(k >= 0, k < n)):
            raise IndexError("bytearray index out of range")
        l, r = self.rope.split(k)
        _, r2 = SBytes(r).split(bvv(1))
        self.rope = SBytes(l + [[z3.Extract(7, 0, lift(v))]] + r2)

    def __add__(self, o):
        return SByteArray(self.rope + o)

    def __eq__(self, o):
        return self.rope == o

    def __bool__(self):
        return bool(self.rope)
    __hash__ = None

    def concrete(self, m):
        return bytearray(self.rope.concrete(m))

    def __bytes__(self):
        raise TypeError("use sym bytes()")


# ---------------------------------------------------------------------------
# struct model
# ---------------------------------------------------------------------------
SIZES = {"B": (1, False), "b": (1, True), "H": (2, False), "h": (2, True),
         "I": (4, False), "i": (4, True), "L": (4, False), "l": (4, True),
         "Q": (8, False), "q": (8, True), "?": (1, False), "c": (1, False)}


def _parse(fmt):
    order = "@"                       # no prefix: native order, aligned
    if fmt and fmt[0] in "<>!=@":
        order = fmt[0]
        fmt = fmt[1:]
    aligned = order == "@"
    if order in "=@":
        order = "<" if sys.byteorder == "little" else ">"
    if order == "!":
        order = ">"
    items, num = [], ""
    for c in fmt:
        if c.isdigit():
            num += c
            continue
        if c.isspace():
            continue
        n = int(num) if num else 1
        num = ""
        if c in "sxp":
            items.append((c, n))
        elif c in SIZES:
            items += [(c, 1)] * n
        else:
            raise _struct.error(f"bad char in struct format: {c}")
    if aligned:
        out, off = [], 0
        for c, n in items:
            w = n if c in "sxp" else SIZES[c][0]
            if c not in "sxp" and off % w:
                out.append(("x", w - off % w))
                off += w - off % w
            out.append((c, n))
            off += w
        items = out
    return order, items


def _symbolic(x):
    if isinstance(x, (SInt, SBool, SBytes, SByteArray)):
        return True
    if isinstance(x, (list, tuple)):
        return any(_symbolic(y) for y in x)
    return False


def sym_calcsize(fmt):
    return _struct.calcsize(fmt)


def sym_pack(fmt, *vals):
    if E.concrete or not _symbolic(vals):
        return _struct.pack(fmt, *vals)
    order, items = _parse(fmt)
    segs = []
    vals = list(vals)
    for c, n in items:
        if c == "x":
            segs.append([z3.BitVecVal(0, 8)] * n)
            continue
        if not vals:
            raise _struct.error("pack expected more items")
        v = vals.pop(0)
        if c == "s":
            d = SBytes.of(v)
            ln = d.length()
            if isinstance(ln.e, z3.BitVecNumRef) or z3.is_bv_value(ln.e):
                k = ln.e.as_long()
                d2 = d[:n] if k > n else d
                segs += d2.segs
                if k < n:
                    segs.append([z3.BitVecVal(0, 8)] * (n - k))
            else:
                if E.branch(ln.e >= n):
                    segs += d[:n].segs
                else:
                    k = ln.concretize(cap=n + 2)
                    segs += d.segs
                    segs.append([z3.BitVecVal(0, 8)] * (n - k))
            continue
        if c == "p":
            d = SBytes.of(v)
            k = min(len(d), n - 1, 255)
            segs.append([z3.BitVecVal(k, 8)])
            segs += d[:k].segs
            segs.append([z3.BitVecVal(0, 8)] * (n - 1 - k))
            continue
        size, signed = SIZES[c]
        if c == "?":
            e = lift(v if isinstance(v, (SBool, bool)) else (v != 0))
        else:
            if not isinstance(v, (int, SInt, SBool)):
                raise _struct.error("required argument is not an integer")
            e = lift(v)
            lo, hi = (-(1 << (8 * size - 1)), (1 << (8 * size - 1)) - 1) \
                if signed else (0, (1 << (8 * size)) - 1)
            if size < 8:
                if not E.branch(z3.And(e >= lo, e <= hi)):
                    raise _struct.error(f"'{c}' format requires {lo} <= "
                                        f"number <= {hi}")
            elif not signed:
                if not E.branch(e >= 0):
                    raise _struct.error("argument out of range")
        bs = [z3.simplify(z3.Extract(8 * i + 7, 8 * i, e)) for i in range(size)]
        segs.append(bs if order == "<" else bs[::-1])
    if vals:
        raise _struct.error("pack expected fewer items")
    return SBytes(segs)


def _unpack_bytes(order, items, bs):
    out, p = [], 0
    for c, n in items:
        if c == "x":
            p += n
            continue
        if c == "s":
            out.append(SBytes([bs[p:p + n]]))
            p += n
            continue
        if c == "p":
            k = SInt(z3.ZeroExt(W - 8, bs[p])).concretize(cap=260)
            k = min(k, n - 1)
            out.append(SBytes([bs[p + 1:p + 1 + k]]))
            p += n
            continue
        size, signed = SIZES[c]
        chunk = bs[p:p + size]
        if order == ">":
            chunk = chunk[::-1]
        v = z3.Concat(*reversed(chunk)) if size > 1 else chunk[0]
        if c == "?":
            out.append(SBool(v != 0))
        else:
            out.append(SInt(z3.SignExt(W - 8 * size, v) if signed
                            else z3.ZeroExt(W - 8 * size, v)))
        p += size
    return tuple(out)


def sym_unpack_from(fmt, data, offset=0):
    if E.concrete or not (_symbolic(data) or _symbolic(offset)):
        return _struct.unpack_from(fmt, data, offset)
    order, items = _parse(fmt)
    data = SBytes.of(data)
    need = _struct.calcsize(fmt)
    off = lift(offset)
    if not E.branch(z3.And(off >= 0, off + need <= data.length().e)):
        raise _struct.error(f"unpack_from requires a buffer of at least "
                            f"{need} bytes")
    if need == 0:
        return ()
    l, r = data.split(z3.simplify(off))
    rest = SBytes(r)
    l2, _ = rest.split(bvv(need))
    win = SBytes(l2)
    if win.is_concrete_len():
        bs = [b for s in win.segs for b in s]
    else:
        bs = [win.byte_at(bvv(i)) for i in range(need)]
    return _unpack_bytes(order, items, bs)


def sym_unpack(fmt, data):
    if E.concrete or not _symbolic(data):
        return _struct.unpack(fmt, data)
    data = SBytes.of(data)
    need = _struct.calcsize(fmt)
    if not E.branch(data.length().e == need):
        raise _struct.error(f"unpack requires a buffer of {need} bytes")
    return sym_unpack_from(fmt, data, 0)


def sym_pack_into(fmt, buf, offset, *vals):
    if E.concrete or not (_symbolic(vals) or _symbolic(buf) or _symbolic(offset)):
        return _struct.pack_into(fmt, buf, offset, *vals)
    b = sym_pack(fmt, *vals)
    n = _struct.calcsize(fmt)
    buf[offset:offset + n] = b


class SymStruct:
    def __init__(self, fmt):
        self.format = fmt
        self.size = _struct.calcsize(fmt)

    def pack(self, *v):
        return sym_pack(self.format, *v)

    def unpack(self, d):
        return sym_unpack(self.format, d)

    def unpack_from(self, d, offset=0):
        return sym_unpack_from(self.format, d, offset)

    def pack_into(self, buf, offset, *v):
        return sym_pack_into(self.format, buf, offset, *v)


class StructShim:
    pack = staticmethod(sym_pack)
    unpack = staticmethod(sym_unpack)
    unpack_from = staticmethod(sym_unpack_from)
    pack_into = staticmethod(sym_pack_into)
    calcsize = staticmethod(sym_calcsize)
    Struct = SymStruct
    error = _struct.error


# ---------------------------------------------------------------------------
# builtins for shadow modules
# ---------------------------------------------------------------------------
def sym_len(x):
    if isinstance(x, (SBytes, SByteArray)):
        return x.length()
    f = getattr(type(x), "__len__", None)
    if f is not None and not isinstance(x, (str, builtins.bytes, list, tuple,
                                            dict, set, builtins.bytearray)):
        r = f(x)                 # a user class may compute a symbolic length
        if isinstance(r, SInt):
            return r
    return builtins.len(x)


def sym_isinstance(x, t):
    ts = t if isinstance(t, tuple) else (t,)
    ts = tuple(_SHADOW_TYPES.get(c, c) for c in ts)
    if isinstance(x, SInt):
        return int in ts or SInt in ts
    if isinstance(x, SBool):
        return bool in ts or int in ts
    if isinstance(x, SBytes):
        return bytes in ts or SBytes in ts
    if isinstance(x, SByteArray):
        return bytearray in ts
    return builtins.isinstance(x, ts)


def _mm(pick):
    def f(*a, **k):
        items = a[0] if len(a) == 1 else a
        items = list(items)
        if not any(isinstance(i, (SInt, SBool)) for i in items):
            if len(a) == 1:
                a = (items,)             # a generator is consumed by now
            return (builtins.max if pick == "max" else builtins.min)(*a, **k)
        r = lift(items[0])
        for i in items[1:]:
            v = lift(i)
            r = z3.If(v > r, v, r) if pick == "max" else z3.If(v < r, v, r)
        return SInt(r)
    return f


def _conv_int(x=0, *a):
    if isinstance(x, SInt):
        return x
    if isinstance(x, SBool):
        return SInt(lift(x))
    return builtins.int(x, *a)


def _conv_bool(x=False):
    if isinstance(x, SBool):
        return x
    if isinstance(x, SInt):
        return SBool(x.e != 0)
    return builtins.bool(x)


def sym_bytes(x=b"", *a):
    if isinstance(x, SInt):
        return SBytes([Blob(None, bvv(0), x.e, fill=0)])
    if isinstance(x, (SBytes,)):
        return x
    if isinstance(x, SByteArray):
        return x.rope
    if isinstance(x, (list, tuple)) and _symbolic(x):
        return SBytes([[z3.Extract(7, 0, lift(v)) for v in x]])
    return builtins.bytes(x, *a)


def _conv_bytearray(x=b"", *a):
    if isinstance(x, (SInt, SBytes, SByteArray)):
        return SByteArray(x)
    if SYM_BYTEARRAYS and not E.concrete and not a:
        # code that later stores symbolic bytes into it needs the proxy
        return SByteArray(builtins.bytes(x) if not isinstance(x, int)
                          else builtins.bytes(x))
    return builtins.bytearray(x, *a)


SYM_BYTEARRAYS = False


def _shadow_type(name, conv, real):
    """a class usable both as constructor and as isinstance()/issubclass()
    argument inside shadow modules"""
    class Meta(type):
        def __call__(cls, *a, **k):
            return conv(*a, **k)

        def __instancecheck__(cls, x):
            return sym_isinstance(x, real)

        def __subclasscheck__(cls, c):
            return issubclass(c, real)

        def __getattr__(cls, n):
            return getattr(real, n)
    return Meta(name, (), {})


sym_int = _shadow_type("int", _conv_int, builtins.int)
sym_bool = _shadow_type("bool", _conv_bool, builtins.bool)
sym_bytes_t = _shadow_type("bytes", sym_bytes, builtins.bytes)
sym_bytearray = _shadow_type("bytearray", _conv_bytearray, builtins.bytearray)
_SHADOW_TYPES = {sym_int: builtins.int, sym_bool: builtins.bool,
                 sym_bytes_t: builtins.bytes,
                 sym_bytearray: builtins.bytearray}


def sym_range(*a):
    a = [v.concretize() if isinstance(v, SInt) else v for v in a]
    return builtins.range(*a)


def sym_abs(x):
    return x.__abs__() if isinstance(x, SInt) else builtins.abs(x)


def sym_divmod(a, b):
    if isinstance(a, SInt) or isinstance(b, SInt):
        return a // b, a % b
    return builtins.divmod(a, b)


def sym_join(sep, parts):
    parts = list(parts)
    if builtins.len(sep) == 0 and any(isinstance(p, (SBytes, SByteArray))
                                      for p in parts):
        return SBytes.join(parts)
    return sep.join(parts)


SHADOW_BUILTINS = dict(builtins.__dict__)
SHADOW_BUILTINS.update(
    len=sym_len, isinstance=sym_isinstance, max=_mm("max"), min=_mm("min"),
    int=sym_int, bool=sym_bool, bytes=sym_bytes_t, bytearray=sym_bytearray,
    range=sym_range, abs=sym_abs, divmod=sym_divmod)


class _MemoryView:
    """memoryview over a symbolic buffer: the buffer itself"""

    def __new__(cls, obj):
        if isinstance(obj, (SBytes, SByteArray)):
            return obj
        return builtins.memoryview(obj)


SHADOW_BUILTINS["memoryview"] = _MemoryView


class _LoggingShim:
    """logging calls format their arguments (forcing symbolic values to
    concrete ones): they get empty bodies"""

    def __getattr__(self, n):
        if n in ("debug", "info", "warning", "warn", "error", "exception",
                 "critical", "log"):
            return lambda *a, **k: None
        import logging
        return getattr(logging, n)


class _OperatorShim:
    def __getattr__(self, n):
        import operator
        return getattr(operator, n)

    @staticmethod
    def index(x):
        if isinstance(x, SInt):
            return x
        import operator
        return operator.index(x)


# ---------------------------------------------------------------------------
# shadow package loader
# ---------------------------------------------------------------------------
class _Rewrite(ast.NodeTransformer):
    """the only source rewriting: b''.join(x) on a constant bytes receiver
    (a C-level method that cannot see proxy parts)"""

    def visit_Call(self, node):
        self.generic_visit(node)
        f = node.func
        if isinstance(f, ast.Attribute) and f.attr == "join" and \
                isinstance(f.value, ast.Constant) and \
                isinstance(f.value.value, bytes):
            return ast.copy_location(
                ast.Call(ast.Name("__sx_join__", ast.Load()),
                         [f.value] + node.args, []), node)
        return node


SHADOW = "ebpfcat_sym"


class _Finder(importlib.abc.MetaPathFinder, importlib.abc.Loader):
    def find_spec(self, name, path=None, target=None):
        if name == SHADOW:
            return importlib.util.spec_from_loader(name, self, is_package=True)
        if name.startswith(SHADOW + "."):
            sub = name.split(".", 1)[1]
            p = os.path.join(common.REPO, "ebpfcat", sub + ".py")
            if os.path.exists(p):
                return importlib.util.spec_from_loader(name, self)
        return None

    def create_module(self, spec):
        return None

    def exec_module(self, mod):
        name = mod.__name__
        if name == SHADOW:
            mod.__path__ = []
            return
        sub = name.split(".", 1)[1]
        p = os.path.join(common.REPO, "ebpfcat", sub + ".py")
        src = open(p).read()
        tree = ast.fix_missing_locations(_Rewrite().visit(ast.parse(src)))
        mod.__dict__["__builtins__"] = dict(SHADOW_BUILTINS)
        mod.__dict__["__sx_join__"] = sym_join
        mod.__file__ = p
        exec(compile(tree, p, "exec"), mod.__dict__)
        _patch(mod)


def _patch(mod):
    d = mod.__dict__
    for n, f in (("pack", sym_pack), ("unpack", sym_unpack),
                 ("unpack_from", sym_unpack_from), ("pack_into", sym_pack_into),
                 ("calcsize", sym_calcsize)):
        if n in d and getattr(d[n], "__module__", "") in ("_struct", "struct"):
            d[n] = f
    if isinstance(d.get("struct"), types.ModuleType):
        d["struct"] = StructShim
    if isinstance(d.get("operator"), types.ModuleType):
        d["operator"] = _OperatorShim()
    if isinstance(d.get("logging"), types.ModuleType):
        d["logging"] = _LoggingShim()      # formatting is never the subject


_finder = None


def shadow(sub):
    """import REPO/ebpfcat/<sub>.py as ebpfcat_sym.<sub> (once per process)"""
    global _finder
    if _finder is None:
        _finder = _Finder()
        sys.meta_path.insert(0, _finder)
    import importlib
    return importlib.import_module(f"{SHADOW}.{sub}")


def real(sub):
    common.use_repo()
    import importlib
    return importlib.import_module(f"ebpfcat.{sub}")


def module(sub):
    """shadow module in symbolic mode, pristine module in concrete mode"""
    return real(sub) if E.concrete else shadow(sub)


# ---------------------------------------------------------------------------
# deterministic event loop (virtual time, scheduling decided by the engine)
# ---------------------------------------------------------------------------
import asyncio
import heapq


class Deadlock(Exception):
    pass


class DetLoop(asyncio.BaseEventLoop):
    """asyncio loop without I/O: virtual clock; which ready callback runs
    next is FIFO (as asyncio) unless `reorder` > 0, in which case up to
    `reorder` times per path the engine chooses another one (explored
    exhaustively)"""

    def __init__(self, reorder=0, max_steps=20000):
        super().__init__()
        self._vtime = 0.0
        self.reorder = reorder
        self.steps = 0
        self.max_steps = max_steps
        self.readers = {}
        self.step_hooks = []      # fn(loop) called before every step

    def time(self):
        return self._vtime

    def _process_events(self, events):
        pass

    def _write_to_self(self):
        pass

    def add_reader(self, fd, cb, *args):
        self.readers[fd] = (cb, args)

    def remove_reader(self, fd):
        return self.readers.pop(fd, None) is not None

    def fire_reader(self, fd):
        cb, args = self.readers[fd]
        self.call_soon(cb, *args)

    def _run_once(self):
        while self._scheduled and self._scheduled[0]._cancelled:
            heapq.heappop(self._scheduled)
        if not any(not h._cancelled for h in self._ready) and self._scheduled:
            self._vtime = max(self._vtime, self._scheduled[0]._when)
        while self._scheduled and self._scheduled[0]._when <= self._vtime:
            h = heapq.heappop(self._scheduled)
            h._scheduled = False
            if not h._cancelled:
                self._ready.append(h)
        live = [h for h in self._ready if not h._cancelled]
        self._ready.clear()
        if not live:
            raise Deadlock("nothing to run")
        k = 0
        if self.reorder > 0 and len(live) > 1:
            k = E.choose(len(live), "ready-queue order")
            if k:
                self.reorder -= 1
        h = live.pop(k)
        self._ready.extend(live)
        self.steps += 1
        for hook in list(self.step_hooks):
            hook(self)
        if self.steps > self.max_steps:
            raise Unwind("event loop step bound exceeded")
        h._run()


def run_async(coro_fn, reorder=0, max_steps=20000):
    """run `await coro_fn()` to completion on a fresh DetLoop"""
    loop = DetLoop(reorder=reorder, max_steps=max_steps)
    asyncio.set_event_loop(loop)
    try:
        return loop.run_until_complete(coro_fn())
    finally:
        try:
            for t in asyncio.all_tasks(loop):
                t.cancel()
            loop.run_until_complete(asyncio.sleep(0))
        except BaseException:
            pass
        asyncio.set_event_loop(None)
        loop.close()


# ---------------------------------------------------------------------------
# logic helpers that work on proxies and on plain values (concrete twin)
# ---------------------------------------------------------------------------
def _tb(x):
    if isinstance(x, SBool):
        return x.e
    if isinstance(x, SInt):
        return x.e != 0
    return z3.BoolVal(builtins.bool(x))


def land(*xs):
    if not any(isinstance(x, (SBool, SInt)) for x in xs):
        return all(xs)
    return SBool(z3.And(*[_tb(x) for x in xs]))


def lor(*xs):
    if not any(isinstance(x, (SBool, SInt)) for x in xs):
        return any(xs)
    return SBool(z3.Or(*[_tb(x) for x in xs]))


def lnot(x):
    if not isinstance(x, (SBool, SInt)):
        return not x
    return SBool(z3.Not(_tb(x)))


def implies(a, b):
    return lor(lnot(a), b)


def ite(c, a, b):
    if not isinstance(c, (SBool, SInt)):
        return a if c else b
    return SInt(z3.If(_tb(c), lift(a), lift(b)))


def beq(a, b):
    """equality of byte strings (proxy or plain)"""
    if isinstance(a, (SBytes, SByteArray)) or isinstance(b, (SBytes, SByteArray)):
        return SBytes.of(a) == b
    return builtins.bytes(a) == builtins.bytes(b)


class scope:
    """temporary assumptions (e.g. a symbolic probe index)"""

    def __enter__(self):
        if not E.concrete:
            E.solver.push()
        return self

    def __exit__(self, *a):
        if not E.concrete:
            E.solver.pop()
        return False


_probe_no = [0]


def bytes_equal(a, b):
    """equality of two byte strings as ONE formula (for obligations, not for
    branching): equal lengths and equal bytes at a fresh symbolic probe index
    -- a counterexample instantiates the index"""
    if E.concrete or not (_symbolic(a) or _symbolic(b)):
        return builtins.bytes(a) == builtins.bytes(b)
    a, b = SBytes.of(a), SBytes.of(b)
    la, lb = a.length().e, b.length().e
    if a.is_concrete_len() and b.is_concrete_len():
        na, nb = z3.simplify(la).as_long(), z3.simplify(lb).as_long()
        if na != nb:
            return False
        return SBool(z3.And(*[a.byte_at(bvv(i)) == b.byte_at(bvv(i))
                              for i in range(na)])) if na else True
    _probe_no[0] += 1
    j = z3.BitVec(f"eqprobe{_probe_no[0]}", W)
    inside = z3.And(j >= 0, j < la)
    # byte_at needs a non-empty rope
    if not a.segs or not b.segs:
        return SBool(la == lb)
    return SBool(z3.And(la == lb,
                        z3.Implies(inside, a.byte_at(j) == b.byte_at(j))))
