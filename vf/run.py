"""entry point: python -m vf.run <ID> <tier> [--replay file]"""
import importlib
import os
import sys


def main(argv):
    if len(argv) < 2:
        print("usage: check <ID> quick|thorough [--replay file]")
        return 2
    pid = argv[0].upper()
    tier = os.environ.get("VERIF_TIER") or argv[1]
    if argv[1] in ("quick", "thorough"):
        tier = argv[1]
    replay = None
    if "--replay" in argv:
        replay = argv[argv.index("--replay") + 1]
    try:
        mod = importlib.import_module(f"vf.props.{pid.lower()}")
    except ModuleNotFoundError as ex:
        print(f"no check for {pid}: {ex}")
        return 2
    try:
        return mod.main(tier, replay) if replay else mod.main(tier)
    except Exception:
        import traceback
        traceback.print_exc()
        print(f"HARNESS-ERROR [{pid}] uncaught exception")
        return 2


if __name__ == "__main__":
    sys.exit(main(sys.argv[1:]))
