"""process simulation for cross-process properties (C15, C23).

Each simulated process is a Python thread running the REAL code; exactly one
thread runs at a time (baton).  Every modelled system call (the `os`, `fcntl`,
`shutil`, `tempfile` shims below) is a scheduling point at which the engine
decides which runnable process continues (bounded number of preemptions,
explored exhaustively), or that the process crashes there (its locks are
released as the kernel would).  The file system is a small POSIX model:
regular files (byte contents), directories, O_CREAT|O_EXCL, rename, rmdir,
lockf byte-range locks owned by processes.
"""
import errno
import threading

from . import pysym
from .pysym import E


class Crash(BaseException):
    """the simulated process dies here"""


class Deadlock(Exception):
    pass


class FS:
    def __init__(self):
        self.files = {}        # path -> list of byte values (int or symbolic)
        self.dirs = {"/", "/run", "/run/lock", "/run/ebpf", "/sys", "/sys/fs",
                     "/sys/fs/bpf", "/tmp"}
        self.locks = {}        # (path id, byte) -> pid ; ("whole", path id) -> pid
        self.fds = {}          # fd -> dict(path, pid, pos, inode)
        self.next_fd = 10
        self.inode = {}        # path -> inode number
        self.next_inode = 1
        self.tmp = 0
        self.log = []

    def parent_ok(self, path):
        return path.rsplit("/", 1)[0] in self.dirs or path.count("/") <= 1


def items(data):
    """the bytes of a (possibly symbolic) bytes value as a list"""
    n = pysym.sym_len(data)
    return [data[i] for i in range(int(n))]


def as_bytes(vals):
    if all(isinstance(v, int) for v in vals):
        return bytes(vals)
    return pysym.sym_bytes(vals)


class Sim:
    """scheduler + per-process shims"""

    def __init__(self, preemptions=2, crash=False):
        self.fs = FS()
        self.cv = threading.Condition()
        self.procs = {}          # pid -> dict
        self.current = None
        self.preemptions = preemptions
        self.crash = crash
        self.crashed = None
        self.error = None
        self.trace = []
        self.deadlock = []
        self.on_point = None     # monitor called at every scheduling point
        self.after = None        # after(pid, op, arg) for selected calls

    # ---- scheduling -------------------------------------------------------
    def spawn(self, pid, fn):
        p = dict(pid=pid, fn=fn, done=False, blocked=None, result=None,
                 exc=None, yielding=False)
        self.procs[pid] = p

        def target():
            with self.cv:
                while self.current != pid and self.error is None:
                    self.cv.wait()
            if self.error is None:
                try:
                    TLS.shims = Shims(self, pid)
                    p["result"] = fn(TLS.shims)
                except Crash:
                    p["crashed"] = True
                except (pysym.Abort, pysym.Unwind) as ex:
                    self.error = ex
                except BaseException as ex:     # noqa: B902
                    p["exc"] = ex
            with self.cv:
                p["done"] = True
                self.release_all(pid)
                try:
                    self._pick(None)
                except (pysym.Abort, pysym.Unwind) as ex:
                    self.error = ex
                self.cv.notify_all()
        p["thread"] = threading.Thread(target=target, daemon=True)

    def runnable(self):
        out = []
        for pid, p in self.procs.items():
            if p["done"]:
                continue
            if p["blocked"] is not None and not p["blocked"]():
                continue
            out.append(pid)
        return out

    def _pick(self, me):
        """choose who runs next (called with cv held)"""
        if self.error is not None:
            self.current = None
            return
        r = self.runnable()
        if not r:
            self.current = None
            if any(not p["done"] for p in self.procs.values()):
                # every live process waits for a lock: deadlock
                self.deadlock = [pid for pid, p in self.procs.items()
                                 if not p["done"]]
                self.error = Deadlock()
            return
        if me in r and not self.procs[me]["yielding"]:
            others = [x for x in r if x != me]
            if others and self.preemptions > 0:
                k = E.choose(len(others) + 1, f"preempt {me}?")
                if k:
                    self.preemptions -= 1
                    self.current = others[k - 1]
                    return
            self.current = me
            return
        cands = [x for x in r if x != me] or r
        if me is not None and me in self.procs and \
                self.procs[me]["yielding"]:
            # a process polling a lock gives way in cyclic order (not a
            # decision: the poll loop makes no progress of its own)
            self.procs[me]["yielding"] = False
            later = [x for x in cands if x > me]
            self.current = (later or cands)[0]
            return
        k = E.choose(len(cands), "who runs next") if len(cands) > 1 else 0
        self.current = cands[k]

    def point(self, pid, what):
        """a scheduling point of process pid"""
        if self.procs[pid].get("dead"):
            raise Crash()        # a dead process executes nothing, not even
        self.trace.append((pid, what))          # its cleanup handlers
        if self.on_point is not None:
            self.on_point(pid, what)
        if len(self.trace) > 4000:
            self.error = pysym.Unwind("process simulation step bound")
        with self.cv:
            if self.crash and self.crashed is None and \
                    not self.procs[pid].get("nocrash"):
                if E.choose(2, f"crash {pid} before {what}?"):
                    self.crashed = (pid, what)
                    self.procs[pid]["dead"] = True
                    raise Crash()
            try:
                self._pick(pid)
            except (pysym.Abort, pysym.Unwind) as ex:
                self.error = ex
            self.cv.notify_all()
            while self.current != pid and self.error is None:
                self.cv.wait()
        if self.error is not None:
            raise Crash()

    def run(self):
        for p in self.procs.values():
            p["thread"].start()
        with self.cv:
            try:
                self._pick(None)
            except (pysym.Abort, pysym.Unwind) as ex:
                self.error = ex
            self.cv.notify_all()
        for p in self.procs.values():
            p["thread"].join(timeout=120)
            if p["thread"].is_alive():
                self.error = self.error or pysym.Unwind("process thread stuck")
        if isinstance(self.error, Deadlock):
            return self.deadlock
        if self.error is not None:
            raise self.error
        stuck = [pid for pid, p in self.procs.items() if not p["done"]]
        return stuck

    # ---- locks --------------------------------------------------------------
    def release_all(self, pid):
        for k in [k for k, v in self.fs.locks.items() if v == pid]:
            del self.fs.locks[k]
        for fd in [fd for fd, d in self.fs.fds.items() if d["pid"] == pid]:
            del self.fs.fds[fd]


class Shims:
    """what a simulated process sees instead of os / fcntl / shutil / tempfile"""

    def __init__(self, sim, pid):
        self.sim, self.pid = sim, pid
        self.os = OsShim(sim, pid)
        self.fcntl = FcntlShim(sim, pid)
        self.shutil = ShutilShim(sim, pid)
        self.tempfile = TempfileShim(sim, pid)
        self.open = OpenShim(sim, pid)


class OsShim:
    O_CREAT, O_RDWR, O_EXCL, O_CLOEXEC = 0o100, 0o2, 0o200, 0o2000000

    def __init__(self, sim, pid):
        self.sim, self.pid, self.fs = sim, pid, sim.fs

    def __getattr__(self, n):
        import os
        return getattr(os, n)

    def getpid(self):
        return 1000 + self.pid

    def makedirs(self, path, exist_ok=False):
        self.sim.point(self.pid, f"makedirs {path}")
        parts = path.strip("/").split("/")
        cur = ""
        for p in parts:
            cur += "/" + p
            if cur in self.fs.files:
                raise FileExistsError(errno.EEXIST, cur)
            self.fs.dirs.add(cur)

    def open(self, path, flags, mode=0o777):
        self.sim.point(self.pid, f"open {path} flags={flags:#o}")
        fs = self.fs
        if flags & self.O_CREAT and flags & self.O_EXCL:
            if path in fs.files or path in fs.dirs:
                raise FileExistsError(errno.EEXIST, path)
        if path not in fs.files:
            if not flags & self.O_CREAT:
                raise FileNotFoundError(errno.ENOENT, path)
            if path.rsplit("/", 1)[0] not in fs.dirs:
                raise FileNotFoundError(errno.ENOENT, path)
            fs.files[path] = []
            fs.inode[path] = fs.next_inode
            fs.next_inode += 1
        fd = fs.next_fd
        fs.next_fd += 1
        fs.fds[fd] = dict(path=path, pid=self.pid, pos=0, inode=fs.inode[path],
                          data=fs.files[path])
        return fd

    def write(self, fd, data):
        self.sim.point(self.pid, f"write fd{fd} {len(data)} bytes")
        d = self.fs.fds[fd]
        buf = d["data"]
        pos = d["pos"]
        data = items(data)
        if len(buf) < pos:
            buf.extend([0] * (pos - len(buf)))
        buf[pos:pos + len(data)] = data
        d["pos"] += len(data)
        return len(data)

    def pread(self, fd, n, offset):
        self.sim.point(self.pid, f"pread fd{fd} {n}@{offset}")
        return as_bytes(self.fs.fds[fd]["data"][offset:offset + n])

    def pwrite(self, fd, data, offset):
        self.sim.point(self.pid, f"pwrite fd{fd} {len(data)}@{offset}")
        buf = self.fs.fds[fd]["data"]
        data = items(data)
        if len(buf) < offset:
            buf.extend([0] * (offset - len(buf)))
        buf[offset:offset + len(data)] = data
        return len(data)

    def ftruncate(self, fd, n):
        self.sim.point(self.pid, f"ftruncate fd{fd} {n}")
        buf = self.fs.fds[fd]["data"]
        if len(buf) > n:
            del buf[n:]
        else:
            buf.extend([0] * (n - len(buf)))

    def close(self, fd):
        self.sim.point(self.pid, f"close fd{fd}")
        d = self.fs.fds.pop(fd)
        # POSIX: closing any descriptor of a file drops the process's locks on it
        for k in [k for k, v in self.fs.locks.items()
                  if v == self.pid and k[1] == d["inode"]]:
            del self.fs.locks[k]

    def remove(self, path):
        self.sim.point(self.pid, f"remove {path}")
        if path not in self.fs.files:
            raise FileNotFoundError(errno.ENOENT, path)
        del self.fs.files[path]
        self.fs.inode.pop(path, None)

    def rename(self, src, dst):
        self.sim.point(self.pid, f"rename {src} -> {dst}")
        fs = self.fs
        if src in fs.dirs:
            if dst in fs.dirs:
                if any(f.startswith(dst + "/") for f in fs.files) or \
                        any(d.startswith(dst + "/") for d in fs.dirs):
                    raise OSError(errno.ENOTEMPTY, dst)
            for f in [f for f in fs.files if f.startswith(src + "/")]:
                fs.files[dst + f[len(src):]] = fs.files.pop(f)
                fs.inode[dst + f[len(src):]] = fs.inode.pop(f)
            fs.dirs.discard(src)
            fs.dirs.add(dst)
            return
        raise FileNotFoundError(errno.ENOENT, src)

    def rmdir(self, path):
        self.sim.point(self.pid, f"rmdir {path}")
        fs = self.fs
        if path not in fs.dirs:
            raise FileNotFoundError(errno.ENOENT, path)
        if any(f.startswith(path + "/") for f in fs.files):
            raise OSError(errno.ENOTEMPTY, path)
        fs.dirs.discard(path)
        if self.sim.after is not None:
            self.sim.after(self.pid, "rmdir", path)


class FcntlShim:
    LOCK_EX, LOCK_NB, LOCK_UN, LOCK_SH = 2, 4, 8, 1

    def __init__(self, sim, pid):
        self.sim, self.pid, self.fs = sim, pid, sim.fs

    def lockf(self, fd, cmd, length=0, start=0):
        self.sim.point(self.pid, f"lockf fd{fd} cmd={cmd} len={length} start={start}")
        d = self.fs.fds[fd]
        if length:
            keys = [(b, d["inode"]) for b in range(start, start + length)]
        else:
            keys = [("whole", d["inode"])]

        def conflict():
            for k, v in self.fs.locks.items():
                if v == self.pid or k[1] != d["inode"]:
                    continue
                if not length or k[0] == "whole" or k in keys:
                    return True
            return False
        if cmd & self.LOCK_UN:
            for k in keys:
                if self.fs.locks.get(k) == self.pid:
                    del self.fs.locks[k]
            return
        if conflict():
            if cmd & self.LOCK_NB:
                self.sim.procs[self.pid]["yielding"] = True
                raise BlockingIOError(errno.EAGAIN, "locked")
            p = self.sim.procs[self.pid]
            p["blocked"] = lambda: not conflict()
            self.sim.point(self.pid, "blocked in lockf")
            p["blocked"] = None
        for k in keys:
            self.fs.locks[k] = self.pid


class ShutilShim:
    def __init__(self, sim, pid):
        self.sim, self.pid, self.fs = sim, pid, sim.fs

    def rmtree(self, path):
        self.sim.point(self.pid, f"rmtree {path}")
        for f in [f for f in self.fs.files if f.startswith(path + "/")]:
            del self.fs.files[f]
        for d in [d for d in self.fs.dirs if d == path or d.startswith(path + "/")]:
            self.fs.dirs.discard(d)


class TempfileShim:
    def __init__(self, sim, pid):
        self.sim, self.pid, self.fs = sim, pid, sim.fs

    def mkdtemp(self, dir="/tmp"):
        self.sim.point(self.pid, f"mkdtemp in {dir}")
        self.fs.tmp += 1
        p = f"{dir}/tmp{self.fs.tmp:04d}"
        self.fs.dirs.add(p)
        return p


class OpenShim:
    """builtins.open for text lock files ('x' mode)"""

    def __init__(self, sim, pid):
        self.sim, self.pid, self.fs = sim, pid, sim.fs

    def __call__(self, path, mode="r"):
        self.sim.point(self.pid, f"open({path!r}, {mode!r})")
        fs = self.fs
        if "x" in mode:
            if path in fs.files:
                raise FileExistsError(errno.EEXIST, path)
            if path.rsplit("/", 1)[0] not in fs.dirs:
                raise FileNotFoundError(errno.ENOENT, path)
            fs.files[path] = []
            fs.inode[path] = fs.next_inode
            fs.next_inode += 1
        elif "w" in mode or "a" in mode:
            if path.rsplit("/", 1)[0] not in fs.dirs:
                raise FileNotFoundError(errno.ENOENT, path)
            if path not in fs.files:
                fs.files[path] = []
                fs.inode[path] = fs.next_inode
                fs.next_inode += 1
            elif "w" in mode:
                del fs.files[path][:]
        elif path not in fs.files:
            raise FileNotFoundError(errno.ENOENT, path)
        buf = fs.files[path]

        class F:
            def write(self_, s):
                buf.extend(list(s.encode() if isinstance(s, str) else s))

            def __enter__(self_):
                return self_

            def __exit__(self_, *a):
                return False
        return F()


TLS = threading.local()


class Dispatch:
    """module-level stand-in for os / fcntl / shutil / tempfile / open that
    forwards to the shims of the simulated process running in this thread"""

    def __init__(self, kind):
        self._kind = kind

    def _target(self):
        sh = getattr(TLS, "shims", None)
        if sh is None:
            raise RuntimeError("system call outside a simulated process")
        return getattr(sh, self._kind)

    def __getattr__(self, n):
        return getattr(self._target(), n)

    def __call__(self, *a, **k):
        return self._target()(*a, **k)


def install(mod, names=("os", "fcntl", "shutil", "tempfile")):
    """replace the module's globals by dispatchers; returns undo()"""
    saved = {}
    for n in names:
        if n in mod.__dict__:
            saved[n] = mod.__dict__[n]
            mod.__dict__[n] = Dispatch(n)
    if "open" not in mod.__dict__:
        saved["open"] = None
    else:
        saved["open"] = mod.__dict__["open"]
    mod.__dict__["open"] = Dispatch("open")

    def undo():
        for n, v in saved.items():
            if v is None:
                mod.__dict__.pop(n, None)
            else:
                mod.__dict__[n] = v
    return undo
