"""helpers to build terminals, devices and (fast) sync groups from the real
classes without a bus: terminal attributes that `initialize` would read from
the hardware are set directly."""
from . import dsl          # noqa: F401  (installs the stubs, selects REPO)

import ebpfcat.ebpfcat as ec_mod
import ebpfcat.devices as devices
import ebpfcat.terminals as terminals
from ebpfcat.ebpfcat import FastSyncGroup, SimpleEtherCat, SyncGroup
from ebpfcat.ethercat import SyncManager

OUT, IN = SyncManager.OUT, SyncManager.IN


class BusStub(SimpleEtherCat):
    """an EtherCat object that never touches a socket"""

    def __init__(self):
        super().__init__("verif0")


def make_terminal(cls, ec, position, pdos, in_sz, out_sz, in_off=0x1100,
                  out_off=0x1000, use_fmmu=True):
    t = cls(ec)
    t.position = position
    t.pdos = dict(pdos)
    t.pdo_in_sz, t.pdo_in_off = in_sz, in_off
    t.pdo_out_sz, t.pdo_out_off = out_sz, out_off
    t.use_fmmu = use_fmmu
    t.name = f"{cls.__name__}@{position}"
    return t


# EL7041: out 0x1601 (control word), 0x1602 (position), 0x1604 (velocity);
# in 0x1A01 (encoder status + counter + latch), 0x1A03 (motor status)
def el7041_pdos(shift_out=0, shift_in=0, bit_enable=0, bit_hi=3, bit_lo=4):
    o, i = shift_out, shift_in
    return {
        (0x7010, 1): (OUT, 0 + o, bit_enable),
        (0x7010, 2): (OUT, 0 + o, (bit_enable + 1) % 8),
        (0x7010, 3): (OUT, 0 + o, (bit_enable + 2) % 8),
        (0x7010, 0x11): (OUT, 2 + o, "I"),
        (0x7010, 0x21): (OUT, 6 + o, "H"),
        (0x6000, 0x11): (IN, 2 + i, "I"),
        (0x6000, 0x12): (IN, 6 + i, "I"),
        (0x6010, 1): (IN, 10 + i, 0),
        (0x6010, 2): (IN, 10 + i, 1),
        (0x6010, 4): (IN, 10 + i, 3),
        (0x6010, 0xc): (IN, 11 + i, bit_hi),
        (0x6010, 0xd): (IN, 11 + i, bit_lo),
    }


def fast_group(ec, devs):
    sg = FastSyncGroup(ec, devs)
    sg.allocate()
    code = sg.assemble()
    return sg, code, list(dsl.REG.maps)
