"""C18 -- sync groups give each terminal disjoint, exactly-sized process data.

The real SyncGroupBase.__init__/allocate, EBPFTerminal.allocate,
AerotechBase.allocate, SterilePacket.append_fmmu and get_fmmu_addr run
symbolically: every terminal's input and output size is a solver variable
(0..1500); terminal kinds (FMMU / direct / Aerotech), read-write flags and
the number of sync groups are enumerated.  The resulting frame is parsed by
an independent walker and every region is located in it.
"""
import itertools

from .. import common, pyrun, pysym
from ..pysym import E, land, lnot, lor, implies

FUNCTIONS = ["ebpfcat/ebpfcat.py:SyncGroupBase.__init__/allocate",
             "ebpfcat/ebpfcat.py:EBPFTerminal.allocate",
             "ebpfcat/terminals.py:AerotechBase.allocate",
             "ebpfcat/ebpfcat.py:SterilePacket.append/append_writer/append_fmmu",
             "ebpfcat/ethercat.py:EtherCat.get_fmmu_addr, Packet.append/assemble",
             "ebpfcat/lock.py:FMMULock.get_next_addr (address arithmetic)"]


class SymDict:
    """a dict whose keys may be symbolic ints (SterilePacket.counters is
    keyed by frame positions): lookups compare keys with the solver"""

    def __init__(self):
        self.pairs = []

    def __setitem__(self, k, v):
        for i, (k2, _) in enumerate(self.pairs):
            if bool(k2 == k):
                self.pairs[i] = (k, v)
                return
        self.pairs.append((k, v))

    def __getitem__(self, k):
        for k2, v in self.pairs:
            if bool(k2 == k):
                return v
        raise KeyError(k)

    def items(self):
        return list(self.pairs)

    def __len__(self):
        return len(self.pairs)


def walk(f, size):
    """independent frame walker: list of datagrams (cmd, addr4 bytes as
    (lo16, hi16) and as int32, len, data position)"""
    out = []
    pos = 2
    more = True
    guard = 0
    while more:
        guard += 1
        if guard > 40:
            raise pysym.Unwind("frame walker")
        cmd, idx, a_lo, a_hi, ln, irq = pysym.sym_unpack_from("<BBHHHH", f, pos)
        n = ln & 0x7ff
        out.append(dict(cmd=cmd, lo=a_lo, hi=a_hi, log=a_lo | (a_hi << 16),
                        n=n, data=pos + 10, pos=pos))
        more = bool((ln >> 15) != 0)
        pos = pos + 12 + n
    return out, pos


def make_harness(kinds, ngroups):
    """kinds: per terminal 'fmmu' / 'direct' / 'aero' and rw flag"""
    def harness():
        eth = pysym.module("ethercat")
        ecm = pysym.module("ebpfcat")
        tm = pysym.module("terminals")
        sym = not E.concrete
        if sym:
            orig_sp = ecm.SterilePacket

            class SP(orig_sp):
                def __init__(self):
                    super().__init__()
                    self.counters = SymDict()
            ecm.SterilePacket = SP
        try:
            ec = eth.EtherCat("verif0")
            groups = []
            for gno in range(ngroups):
                terms = []
                for i, (kind, rw) in enumerate(kinds):
                    nm = f"g{gno}t{i}"
                    isz = E.int(f"{nm}_in_sz", 0, 1500)
                    osz = E.int(f"{nm}_out_sz", 0, 1500)
                    cls = tm.AerotechBase if kind == "aero" else ecm.EBPFTerminal
                    t = cls(ec)
                    t.position = 100 * (gno + 1) + i
                    t.pdo_in_sz, t.pdo_out_sz = isz, osz
                    t.pdo_in_off, t.pdo_out_off = 0x1100 + 0x100 * i, 0x1000 + 0x100 * i
                    t.use_fmmu = kind != "direct"
                    t.name = nm
                    if kind == "aero":
                        t.in_size = E.int(f"{nm}_aero_in", 0, 1500)
                        t.out_size = E.int(f"{nm}_aero_out", 0, 1500)
                    terms.append((t, rw))

                class Dev(ecm.Device):
                    def __init__(self, ts):
                        self.ts = ts

                    def get_terminals(self):
                        return dict(self.ts)
                sg = ecm.SyncGroup(ec, [Dev(terms)])
                try:
                    sg.allocate()
                except OverflowError:
                    # rejected: must really be too large for one frame
                    need = 16
                    count = 0
                    fin = fout = 0
                    for t, rw in terms:
                        k = kinds[terms.index((t, rw))][0]
                        if k == "fmmu":
                            fin = fin + t.pdo_in_sz
                            if rw:
                                fout = fout + t.pdo_out_sz
                        elif k == "direct":
                            need = need + pysym.ite(t.pdo_in_sz > 0, 12 + t.pdo_in_sz, 0)
                            count = count + pysym.ite(t.pdo_in_sz > 0, 1, 0)
                            if rw:
                                need = need + pysym.ite(t.pdo_out_sz > 0, 12 + t.pdo_out_sz, 0)
                                count = count + pysym.ite(t.pdo_out_sz > 0, 1, 0)
                        else:
                            fin = fin + pysym.ite(t.pdo_in_sz > 0, t.in_size, 0)
                            need = need + pysym.ite(t.pdo_in_sz > 0, 13, 0)
                            if rw:
                                need = need + pysym.ite(t.pdo_out_sz > 0, 12 + t.out_size + 13, 0)
                    need = need + pysym.ite(fin > 0, 12 + fin, 0) \
                        + pysym.ite(fout > 0, 12 + fout, 0)
                    E.prove(need > 1500, "a group is rejected only if it does "
                                         "not fit into one frame")
                    return
                groups.append((sg, terms))
            # ---- per group: locate every region in the parsed frame
            windows = []
            for gno, (sg, terms) in enumerate(groups):
                p = sg.packet
                f = p.assemble(7)
                E.prove(p.size <= 1500, "frame within the maximum size")
                if not p.data:
                    # no process data at all: nothing to locate (the frame
                    # then consists of the identification datagram only)
                    for t, rw in terms:
                        E.prove(not sg.pdo_assign[t], "no region without "
                                                      "process data")
                    continue
                dgs, end = walk(f, p.size)
                E.prove(end == p.size, "frame parses to its full size")
                regions = []
                for i, (t, rw) in enumerate(terms):
                    kind = kinds[i][0]
                    for sm, size in ((eth.SyncManager.IN, t.pdo_in_sz),
                                     (eth.SyncManager.OUT, t.pdo_out_sz)):
                        is_out = sm is eth.SyncManager.OUT
                        if is_out and not rw:
                            E.prove(sm not in sg.pdo_assign[t],
                                    "no output region for a read-only terminal")
                            continue
                        if not bool(size > 0):
                            E.prove(sm not in sg.pdo_assign[t],
                                    "no region for an empty process image")
                            continue
                        if kind == "aero":
                            size = t.out_size if is_out else t.in_size
                            if not bool(size > 0):
                                continue
                        E.prove(sm in sg.pdo_assign[t], "a region is assigned "
                                "for every non-empty process image")
                        if sm not in sg.pdo_assign[t]:
                            continue
                        start = sg.pdo_assign[t][sm]
                        uses_fmmu = (kind == "fmmu") or (kind == "aero" and not is_out)
                        # the transporting datagram
                        found = None
                        for d in dgs[1:]:
                            if uses_fmmu:
                                want = 11 if is_out else 10      # LWR / LRD
                                if bool(d["cmd"] == want):
                                    found = d
                            else:
                                want = 5 if is_out else 4        # FPWR / FPRD
                                off = t.pdo_out_off if is_out else t.pdo_in_off
                                if found is None and bool(land(
                                        d["cmd"] == want,
                                        d["lo"] == t.position,
                                        d["hi"] == off)):
                                    found = d
                        E.prove(found is not None, f"terminal {i} "
                                f"{'output' if is_out else 'input'}: a "
                                "datagram transports the region")
                        if found is None:
                            continue
                        E.prove(land(found["data"] <= start,
                                     start + size <= found["data"] + found["n"]),
                                f"terminal {i} {'output' if is_out else 'input'}"
                                ": region of exactly its size lies inside the "
                                "transporting datagram")
                        if uses_fmmu:
                            la = sg.fmmu_maps[t][sm]
                            E.prove(la - found["log"] == start - found["data"],
                                    f"terminal {i}: the configured logical "
                                    "address maps to the same region")
                            E.prove(found["log"] == (sg.packet.next_logical_addr
                                                     + (0x800 if is_out else 0)),
                                    "logical datagram addresses the group's window")
                        else:
                            E.prove(land(start == found["data"],
                                         size == found["n"]),
                                    f"terminal {i}: direct datagram is exactly "
                                    "the region")
                            E.prove(sm not in sg.fmmu_maps[t],
                                    "no FMMU mapping for direct addressing")
                        regions.append((start, size))
                for (s1, z1), (s2, z2) in itertools.combinations(regions, 2):
                    E.prove(lor(s1 + z1 <= s2, s2 + z2 <= s1),
                            "regions of one frame never overlap")
                base = sg.packet.next_logical_addr
                windows.append((base, p.fmmu_in_size))
                windows.append((base + 0x800, p.fmmu_out_size))
            for (b1, z1), (b2, z2) in itertools.combinations(windows, 2):
                E.prove(lor(z1 == 0, z2 == 0, b1 + z1 <= b2, b2 + z2 <= b1),
                        "logical address windows never overlap")
        finally:
            if sym:
                ecm.SterilePacket = orig_sp
    return harness


def shapes(tier):
    K = [("fmmu", True), ("fmmu", False), ("direct", True), ("direct", False),
         ("aero", True)]
    out = []
    for k in K:
        out.append(([k], 1))
    for a, b in itertools.combinations_with_replacement(K, 2):
        out.append(([a, b], 1))
    out.append(([("fmmu", True)], 2))
    out.append(([("direct", True)], 2))
    if tier != "quick":
        out.append(([("fmmu", True), ("direct", True)], 2))
        # three terminals: mixed kinds (three FMMU terminals with all sizes
        # symbolic exhaust the path budget)
        for trio in ([K[0], K[2], K[1]], [K[2], K[3], K[0]], [K[0], K[1], K[3]],
                     [K[2], K[2], K[1]]):
            out.append((trio, 1))
        out.append(([("fmmu", True), ("fmmu", False)], 3))
    return out


def worker(args):
    kinds, ng = args
    res = pyrun.new_res()
    name = f"{ng} sync group(s) of terminals {kinds}"
    try:
        st = pyrun.run("C18", name, make_harness(kinds, ng), res, maxtime=600,
                       sig=lambda w: w.split(":")[-1].strip()[:70])
        res["samples"].append(dict(harness=name, **{
            k: st[k] for k in ("paths", "aborted", "decisions", "obligations",
                               "queries", "wall")}))
    except Exception as ex:
        import traceback
        res["errors"].append(f"{name}: harness exception {ex} "
                             f"{traceback.format_exc()[-500:]}")
    return res


def main(tier, replay_file=None):
    ck = common.Check(
        "C18", tier, "model_checking", FUNCTIONS,
        bounds=dict(terminals="1..2 per group in all kind combinations (thorough: also 4 mixed trios); kinds FMMU / "
                              "direct / Aerotech-style allocator; read-write "
                              "or read-only",
                    sizes="every input/output size (and Aerotech packet size) "
                          "symbolic 0..1500",
                    groups="1..2 (3) sync groups on one master",
                    outside="more than 3 terminals per group; ParallelEtherCat "
                            "address windows (C23)"),
        stubs=["SterilePacket.counters replaced by a dict that accepts "
               "symbolic integer keys (same mapping semantics)"],
        assumptions=["frame walker per ETG.1000.4"])
    for res in common.pmap(worker, shapes(tier)):
        ck.add(res)
    return ck.finish()
