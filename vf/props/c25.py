"""C25 -- terminal addresses assigned by the master are unique.

The real EtherCat.find_free_address / assigned_address / scan_serial_numbers
/ eeprom_read / count and Terminal.initialize (address part) run on the
deterministic event loop against a bus of up to 3 terminals whose
pre-assigned station addresses (0 = none) are chosen by the engine; `randint`
is an adversarial stub that may return the address of any terminal, a value
handed out before, or a fresh one, including both ends of the range.
"""
import asyncio

from .. import busmodel, common, pyrun, pysym
from ..pysym import E, land, lnot, lor

FUNCTIONS = ["ebpfcat/ethercat.py:EtherCat.find_free_address",
             "ebpfcat/ethercat.py:EtherCat.assigned_address",
             "ebpfcat/ethercat.py:EtherCat.scan_serial_numbers/eeprom_read/count",
             "ebpfcat/ethercat.py:Terminal.initialize (address assignment)",
             "ebpfcat/ethercat.py:EtherCat.roundtrip/roundtrip_packet"]
POOL = [1000, 30000, 4711]
ADVERSARIAL_DRAWS = 3


class Slave(busmodel.TerminalModel):
    def __init__(self, name, position, serial):
        super().__init__(name, position)
        self.serial = serial
        self.answered_at = set()
        self.addr = 0

    def write_502(self, data):
        if pysym.sym_len(data) >= 6:
            self.addr, = pysym.sym_unpack_from("<I", data, 2)

    def read_502(self, n):
        val = self.serial if int(self.addr) == 14 else 0
        return (pysym.sym_pack("<HII", 0, self.addr, val) + bytes(8))[:n]

    def write_120(self, data):
        pass

    def read_4(self, n):
        return bytes([2]) + bytes(n - 1)


def make_harness(nterm, mode, reorder, adv=ADVERSARIAL_DRAWS):
    def harness():
        eth = pysym.module("ethercat")
        pre = []
        for i in range(nterm):
            k = E.choose(len(POOL) + 1, f"pre-assigned address of terminal {i}")
            a = 0 if k == 0 else POOL[k - 1]
            if a and a in pre:
                raise pysym.Abort()        # the bus has no duplicate addresses
            pre.append(a)
        handed = []

        def randint(a, b):
            if len(handed) >= adv:
                # after the adversarial draws: values never seen before
                v = 1100 + len(handed)
                handed.append(v)
                return v
            cands = sorted(set(POOL + [x for x in pre if x] + handed + [a, b]))
            v = cands[E.choose(len(cands), "randint")]
            if not a <= v <= b:
                raise pysym.Abort()
            handed.append(v)
            return v
        saved = eth.randint
        eth.randint = randint
        out = {}
        try:
            async def main():
                ec = busmodel.make_ec(eth)
                models = [Slave(f"s{i}", pre[i], E.int(f"serial{i}", 0, 5))
                          for i in range(nterm)]
                bus = busmodel.Bus(eth, models)
                orig_find = bus.find

                def find(cmd, pos):
                    t = orig_find(cmd, pos)
                    if t is not None and cmd.name[0] == "F":
                        t.answered_at.add(int(pos))
                    return t
                bus.find = find

                class Tr:
                    def sendto(self, data, addr):
                        # count(): APRD frame, every terminal increments adp
                        f = bytes(data)
                        idx = f[4:8]
                        r = bytearray(f)
                        r[18:20] = nterm.to_bytes(2, "little")
                        asyncio.get_event_loop().call_soon(
                            ec.datagram_received, bytes(r), None)
                ec.transport = Tr()

                async def body():
                    if mode == "scan":
                        out["scan"] = await ec.scan_serial_numbers()
                    elif mode == "init":
                        ts = []
                        for i in range(nterm):
                            t = eth.Terminal(ec)

                            async def noop(*a, **k):
                                return None
                            t.apply_eeprom = noop
                            ts.append(t)
                        await asyncio.gather(*[t.initialize(-i)
                                               for i, t in enumerate(ts)])
                        out["init"] = [t.position for t in ts]
                    else:
                        out["free"] = await asyncio.gather(
                            *[ec.find_free_address() for _ in range(2)])
                await busmodel.with_bus(ec, bus, body())
                out["models"] = models
                out["ec"] = ec
            pysym.run_async(main, reorder=reorder, max_steps=20000)
        finally:
            eth.randint = saved
        models = out["models"]
        final = [int(m.position) for m in models]
        if mode == "scan":
            new = [(i, final[i]) for i in range(nterm) if pre[i] == 0]
            for i in range(nterm):
                if pre[i]:
                    E.prove(final[i] == pre[i], f"terminal {i}: a pre-assigned "
                                                "address is kept")
        elif mode == "init":
            new = list(enumerate(final))
            E.prove(final == [int(p) for p in out["init"]],
                    "the terminal object knows the address written to the bus")
        else:
            new = [(None, int(a)) for a in out["free"]]
        lo, hi = out["ec"].terminal_addr_range
        for i, a in new:
            E.prove(lo <= a <= hi, f"assigned address {a} lies in the "
                                   "configured range")
        vals = [a for _, a in new]
        E.prove(len(set(vals)) == len(vals),
                f"no address is handed out twice (assigned {vals})")
        for i, a in new:
            others = [pre[j] for j in range(nterm) if j != i and pre[j]]
            if mode != "init":
                E.prove(a not in others, f"assigned address {a} equals the "
                                         f"address of another terminal {others}")
        if mode == "scan":
            E.prove(len(set(final)) == len(final) and all(final),
                    f"after the scan all terminals have distinct non-zero "
                    f"addresses ({final})")
    return harness


TIER = "quick"


def shapes(tier):
    out = [(1, "scan", 0), (2, "scan", 0), (2, "free", 0), (2, "init", 0)]
    if tier != "quick":
        out += [(3, "init", 0), (3, "free", 0)]
    return out


def worker(args):
    n, mode, reorder = args
    res = pyrun.new_res()
    name = f"{mode} on a bus of {n} terminal(s)" + \
        (f", {reorder} reordering(s)" if reorder else "")
    try:
        st = pyrun.run("C25", name, make_harness(n, mode, reorder,
                                                 3 if TIER == "quick" else 4), res,
                       maxtime=600, maxpaths=200000,
                       sig=lambda w: w.split("(")[0].strip()[:70])
        res["samples"].append(dict(harness=name, **{
            k: st[k] for k in ("paths", "aborted", "decisions", "obligations",
                               "queries", "wall")}))
    except Exception as ex:
        import traceback
        res["errors"].append(f"{name}: harness exception {ex} "
                             f"{traceback.format_exc()[-500:]}")
    return res


def main(tier, replay_file=None):
    ck = common.Check(
        "C25", tier, "model_checking", FUNCTIONS,
        bounds=dict(bus="1..2 (thorough 3) terminals; pre-assigned address of "
                        "each from {none, 1000, 1001, 30000, 4711} (all "
                        "combinations without duplicates)",
                    randint="the first 3 (thorough 4) draws adversarial: any "
                            "terminal's address, any value drawn before, the "
                            "range ends or another value; later draws fresh",
                    concurrency="scan_serial_numbers (TaskGroup), concurrent "
                                "Terminal.initialize, two concurrent "
                                "find_free_address; 3 terminals in thorough",
                    outside="address values other than the representatives; "
                            "more than 3 terminals"),
        stubs=["random.randint adversarial over representative values",
               "datagram-level bus model (auto-increment and configured "
               "addressing, station address register 0x10, EEPROM serial "
               "number), count() answered at frame level"])
    global TIER
    TIER = tier
    for res in common.pmap(worker, shapes(tier)):
        ck.add(res)
    return ck.finish()
