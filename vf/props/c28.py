"""C28 -- serial channels transfer bytes exactly once, in order.

The real Serial.update runs symbolically against an EL6002 handshake model
(initialisation, accept delays in both directions, activity in both
directions at once); the pipes are modelled as byte queues.  Payload lengths
and contents, the terminal's accept delays and the cycles at which the
application writes are solver variables / engine decisions.
"""
from .. import common, pyrun, pysym
from ..pysym import E, SInt, land, lnot, lor

FUNCTIONS = ["ebpfcat/serial.py:Serial.update", "ebpfcat/serial.py:Serial.__init__",
             "ebpfcat/ebpfcat.py:TerminalVar.__get__/__set__"]


def cell_class():
    """a linked process variable: subclass of the real PacketVar (that is
    what TerminalVar accepts for linking) holding its value directly"""
    ecm = pysym.module("ebpfcat")

    class Cell(ecm.PacketVar):
        def __init__(self, value=False):
            self.value = value
            self.terminal = self.sm = None

        def get(self, device):
            return self.value

        def set(self, device, value):
            if self.pascal:
                # the variable's format is "23p": at most 22 bytes are kept
                value = value[:22]
            self.value = value
    Cell.pascal = False
    return Cell


class Channel:
    """what Serial.__init__ copies its linked variables from"""

    def __init__(self):
        Cell = cell_class()
        for n in ("transmit_accept", "receive_request", "init_accept",
                  "transmit_request", "receive_accept", "init_request"):
            setattr(self, n, Cell(False))
        self.in_string = Cell(b"")
        self.out_string = Cell(b"")
        self.in_string.pascal = self.out_string.pascal = True


class Pipes:
    """os.pipe2 / os.write / os.read over byte queues"""

    def __init__(self):
        self.q = {}
        self.next = 100

    def pipe2(self, flags):
        r, w = self.next, self.next + 1
        self.next += 2
        self.q[r] = b""
        self.peer = getattr(self, "peer", {})
        self.peer[w] = r
        return r, w

    def write(self, fd, data):
        r = self.peer[fd]
        self.q[r] = self.q[r] + data
        return pysym.sym_len(data)

    def read(self, fd, n):
        buf = self.q[fd]
        ln = pysym.sym_len(buf)
        if not bool(ln > 0):
            raise BlockingIOError()
        if bool(ln > n):
            out, self.q[fd] = buf[:n], buf[n:]
        else:
            out, self.q[fd] = buf, b""
        return out

    def __getattr__(self, name):
        import os
        return getattr(os, name)


def make_harness(cycles, nwrites, nrecv, maxdelay, initbits=False):
    def harness():
        ser = pysym.module("serial")
        pipes = Pipes()
        saved = ser.os
        ser.os = pipes
        try:
            ch = Channel()
            # the terminal's toggle bits have arbitrary values when the
            # master connects
            if initbits:
                ch.transmit_accept.value = \
                    bool(E.bool("transmit_accept_at_start"))
                ch.receive_request.value = \
                    bool(E.bool("receive_request_at_start"))
            dev = ser.Serial(ch)
            dev.sync_group = object()
            app_written = b""
            write_at = sorted(E.choose(cycles, f"cycle of app write {i}")
                              for i in range(nwrites))
            chunks_in = [E.bytes(f"rx{i}", E.int(f"rxlen{i}", 0, 22))
                         for i in range(nrecv)]
            d_init = int(E.int("init_delay", 0, maxdelay))
            delays = {}

            def delay(kind, k):
                # decided lazily: only chunks that exist get a delay variable
                if (kind, k) not in delays:
                    delays[kind, k] = int(E.int(f"{kind}_delay{k}", 0, maxdelay))
                return delays[kind, k]
            # terminal state
            t = dict(init_wait=0, tx_seen=False, tx_pending=None, tx_wait=0,
                     tx_count=0, got=[], rx_next=0, rx_wait=0,
                     rx_outstanding=False, rx_expect_accept=False, acks=0,
                     tx_toggles=0, last_req=False, last_acc=False)
            for cyc in range(cycles):
                for i, w in enumerate(write_at):
                    if w == cyc:
                        n = E.int(f"wlen{i}", 1, 30)
                        d = E.bytes(f"w{i}", n)
                        pipes.write(dev.out_write, d)
                        app_written = app_written + d
                was_connected = dev.connected
                idle = t["tx_pending"] is None
                waiting = pysym.sym_len(pipes.q[dev.out_read])
                dev.update()
                if was_connected and idle and bool(waiting > 0):
                    E.prove(bool(ch.transmit_request.value) != t["last_req"],
                            f"cycle {cyc}: with data waiting and no chunk "
                            "outstanding a new chunk is announced")
                # ---- the terminal's side of the cycle
                # initialisation
                if bool(ch.init_request.value):
                    t["init_wait"] += 1
                    if t["init_wait"] > d_init:
                        ch.init_accept.value = True
                else:
                    ch.init_accept.value = False if not dev.connected \
                        else ch.init_accept.value
                req = bool(ch.transmit_request.value)
                if req != t["last_req"]:
                    t["tx_toggles"] += 1
                    E.prove(t["tx_pending"] is None,
                            f"cycle {cyc}: a new chunk is announced only "
                            "after the previous one was acknowledged")
                    t["tx_pending"] = ch.out_string.value
                    t["tx_wait"] = 0
                    t["last_req"] = req
                if t["tx_pending"] is not None:
                    E.prove(pysym.bytes_equal(ch.out_string.value,
                                              t["tx_pending"]),
                            f"cycle {cyc}: the announced chunk is kept until "
                            "it is acknowledged")
                    if t["tx_wait"] >= delay("tx", t["tx_count"]):
                        t["got"].append(t["tx_pending"])
                        t["tx_pending"] = None
                        t["tx_count"] += 1
                        ch.transmit_accept.value = \
                            not bool(ch.transmit_accept.value)
                    else:
                        t["tx_wait"] += 1
                # receive direction
                acc = bool(ch.receive_accept.value)
                if acc != t["last_acc"]:
                    t["acks"] += 1
                    E.prove(t["rx_outstanding"], f"cycle {cyc}: a chunk is "
                            "acknowledged only when one was announced")
                    t["rx_outstanding"] = False
                    t["last_acc"] = acc
                if dev.connected and not t["rx_outstanding"] and \
                        t["rx_next"] < nrecv:
                    if t["rx_wait"] >= delay("rx", t["rx_next"]):
                        ch.in_string.value = chunks_in[t["rx_next"]]
                        ch.receive_request.value = \
                            not bool(ch.receive_request.value)
                        t["rx_outstanding"] = True
                        t["rx_next"] += 1
                        t["rx_wait"] = 0
                    else:
                        t["rx_wait"] += 1
            # ---- obligations at the end of the history
            sent = b""
            for g in t["got"]:
                sent = sent + g
            if t["tx_pending"] is not None:
                sent_all = sent + t["tx_pending"]
            else:
                sent_all = sent
            n_sent = pysym.sym_len(sent_all)
            E.prove(n_sent <= pysym.sym_len(app_written),
                    "no more bytes are presented to the terminal than the "
                    "application wrote")
            if bool(n_sent <= pysym.sym_len(app_written)):
                E.prove(pysym.bytes_equal(sent_all, app_written[:n_sent]),
                        "the chunks presented to the terminal are the "
                        "application's bytes, once and in order")
            E.prove(t["tx_toggles"] == len(t["got"]) +
                    (1 if t["tx_pending"] is not None else 0),
                    "one toggle of the transmit request per chunk")
            delivered = pipes.q[dev.in_read]
            announced = t["rx_next"] - (1 if t["rx_outstanding"] else 0)
            exp = b"A" if dev.connected else b""
            for i in range(announced):
                exp = exp + chunks_in[i]
            E.prove(pysym.bytes_equal(delivered, exp),
                    "every chunk the terminal announced is delivered to the "
                    "application exactly once and in order")
            E.prove(t["acks"] == announced,
                    "one toggle of the receive accept per announced chunk")
        finally:
            ser.os = saved
    return harness


def shapes(tier):
    if tier == "quick":
        return [(6, 1, 1, 1), (7, 2, 0, 1), (7, 0, 2, 1), (5, 1, 1, 0, True)]
    # (three application writes exhaust the path budget even at 7 cycles)
    return [(6, 1, 1, 1), (7, 2, 0, 1), (8, 1, 1, 2), (9, 2, 1, 1),
            (9, 1, 2, 1), (8, 2, 2, 1), (10, 0, 3, 2), (6, 1, 1, 1, True)]


def worker(args):
    cycles, nw, nr, md = args[:4]
    initbits = len(args) > 4 and args[4]
    res = pyrun.new_res()
    name = (f"{cycles} cycles, {nw} application write(s), {nr} chunk(s) from "
            f"the terminal, accept delays 0..{md}"
            + (", toggle bits arbitrary at connection" if initbits else ""))
    try:
        st = pyrun.run("C28", name, make_harness(cycles, nw, nr, md, initbits), res,
                       maxtime=900, maxpaths=100000,
                       sig=lambda w: w.split(":")[-1].strip()[:70])
        res["samples"].append(dict(harness=name, **{
            k: st[k] for k in ("paths", "aborted", "decisions", "obligations",
                               "queries", "wall")}))
    except Exception as ex:
        import traceback
        res["errors"].append(f"{name}: harness exception {ex} "
                             f"{traceback.format_exc()[-500:]}")
    return res


def main(tier, replay_file=None):
    ck = common.Check(
        "C28", tier, "model_checking", FUNCTIONS,
        bounds=dict(history="6..7 (thorough 7..10) cycles including "
                            "initialisation",
                    application="1..2 writes of 1..30 bytes (symbolic "
                                "length and content) at engine-chosen cycles",
                    terminal="0..2 (3) chunks of 0..22 bytes (symbolic), accept "
                             "delays 0..1 (2) cycles per chunk and direction, "
                             "initialisation delay 0..1 (2)",
                    outside="longer histories; lost process-data cycles"),
        stubs=["os.pipe2/os.write/os.read = byte queues (a read returns at "
               "most n bytes of what is queued, BlockingIOError when empty)",
               "EL6002 handshake model written from the terminal "
               "documentation (toggle request / toggle accept in both "
               "directions, init request/accept)",
               "process variables are linked cells"])
    for res in common.pmap(worker, shapes(tier)):
        ck.add(res)
    return ck.finish()
