"""C09 -- hash-map variables and Dict entries agree between Python and program.

Seeded random programs declare 1-3 hash-map variables (formats, defaults)
and a Dict whose key and value are random packed Structures.

Reference (one for both sides): the variable with number c is the entry with
the one-byte key c of a hash map with 8-byte values, read/written in its low
bytes with the declared format; a Structure member lives at the sum of the
sizes of the members before it, little endian.

* Python side (engine B): the real descriptors, HashMap.load, TheDict and
  Structure/Member run symbolically above the kernel model
  (vf/bpfkernel.py): defaults after loading, set/get round trips of
  symbolic values, independence of the cells, Dict insert / lookup /
  modify / pop / delete / iteration with symbolic member values, the bytes
  that reach the kernel compared with the reference layout.
* program side (engine A): a generated program that copies hash variables
  to and from an array map, fills the Dict key/value from an array map,
  updates, looks up (copying the found members out, modifying one) and has an
  Else branch is assembled; its bytes run symbolically over symbolic map
  contents and slot tables.
"""
import random
import struct

import z3
from z3 import (And, BitVec, BoolVal, Concat, Extract, If, Not, Or, Select,
                SignExt, UGE, ULT, ZeroExt)

from .. import bpfkernel, common, pyrun, pysym
from ..pysym import E

FUNCTIONS = ["ebpfcat/hashmap.py:HashGlobalVar.get_address, "
             "HashGlobalVarDesc.__get__/__set__, HashMap.init/load/globalVar",
             "ebpfcat/hashmap.py:Dict.__set_name__/init, TheDict (Python: "
             "__setitem__/__getitem__/pop/__delitem__/__iter__; program: "
             "update/lookup)",
             "ebpfcat/ebpf.py:Structure, Member.__set_name__/fmt_addr/__get__/"
             "__set__, LocalVar.fmt_addr",
             "ebpfcat/bpf.py:lookup_elem, lookup_and_delete_elem, update_elem, "
             "delete_elem, get_next_key"]
FMTS = "bBhHiIqQ"


def gen_spec(seed):
    rng = random.Random(seed)

    def members(n):
        fm = [rng.choice(FMTS) for _ in range(n)]
        return sorted(fm, key=lambda f: -struct.calcsize(f))
    hashvars = [dict(fmt=rng.choice(FMTS), default=rng.randrange(100),
                     role=rng.choice("RW"), src=rng.choice("BbHhIiqQ"))
                for _ in range(rng.randint(1, 3))]
    key = members(rng.randint(1, 3))
    big_value = rng.random() < 0.35       # value structure larger than the key
    if big_value:
        key = [rng.choice("IiHh")] + ([rng.choice("bB")] if rng.random() < .5
                                      else [])
    if sum(struct.calcsize(f) for f in key) == 1:
        key = [rng.choice("hHiI")] + key   # keep the Dict's map apart from
    return dict(seed=seed,               # the 1-byte-key variable map
                hashvars=hashvars, key=key,
                value=(sorted([rng.choice("qQ"), rng.choice("IiqQ"),
                               rng.choice(FMTS)],
                              key=lambda f: -struct.calcsize(f))
                       if big_value else members(rng.randint(1, 3))),
                lru=rng.random() < 0.2, in_base=rng.random() < 0.3,
                modify=rng.random() < 0.5)


def offsets(fmts):
    out, off = [], 0
    for f in fmts:
        out.append(off)
        off += struct.calcsize(f)
    return out, off


def build(ebpf_mod, am, hm, spec, program_side):
    ns, base_ns = {}, {}
    hmap = hm.HashMap()
    tgt = base_ns if spec["in_base"] else ns
    tgt["hmap"] = hmap
    for i, hv in enumerate(spec["hashvars"]):
        tgt[f"h{i}"] = hmap.globalVar(hv["fmt"], default=hv["default"])
    Key = type("Key", (ebpf_mod.Structure,),
               {f"k{i}": ebpf_mod.Member(f) for i, f in enumerate(spec["key"])})
    Value = type("Value", (ebpf_mod.Structure,),
                 {f"v{i}": ebpf_mod.Member(f)
                  for i, f in enumerate(spec["value"])})
    ns["table"] = hm.Dict(Key, Value, size=3, lru=spec["lru"])
    if program_side:
        aux = am.ArrayMap()
        ns["aux"] = aux
        for i, hv in enumerate(spec["hashvars"]):
            if hv["role"] == "W":
                ns[f"xh{i}"] = aux.globalVar(hv["src"])
            else:
                ns[f"xh{i}"] = aux.globalVar("q" if hv["fmt"].islower()
                                             else "Q")
        for i, f in enumerate(spec["key"]):
            ns[f"ka{i}"] = aux.globalVar("q")
            ns[f"kb{i}"] = aux.globalVar("q")
        for i, f in enumerate(spec["value"]):
            ns[f"va{i}"] = aux.globalVar("q")
            ns[f"out{i}"] = aux.globalVar("q" if f.islower() else "Q")
        ns["vmod"] = aux.globalVar("q")
        ns["miss"] = aux.globalVar("Q")
        ns["upd"] = aux.globalVar("q")
    Base = type("Base", (ebpf_mod.EBPF,), base_ns)
    Prog = type("Prog", (Base,), ns)
    return Prog, Key, Value


# ------------------------------------------------------------- Python side
def fresh(name, f):
    w = struct.calcsize(f)
    if f == "Q":
        return E.int(name, 0, 2 ** 63 - 1)
    return E.int(name, bits=8 * w, signed=f.islower())


def le_bytes(v, w):
    return [(v >> (8 * i)) & 0xff for i in range(w)]


def python_harness(seed):
    def harness():
        spec = gen_spec(seed)
        bpfm = pysym.module("bpf")
        am = pysym.module("arraymap")
        hm = pysym.module("hashmap")
        ebpf_mod = pysym.module("ebpf")
        kern = bpfkernel.Kernel(4)
        undo = kern.install(bpfm)
        pysym.SYM_BYTEARRAYS = True
        try:
            Prog, Key, Value = build(ebpf_mod, am, hm, spec, False)
            e = Prog(bpfm.ProgType.XDP, "GPL")
            # what EBPF.load does after the kernel accepted the program
            e.loaded = True
            real_load_maps(e, ebpf_mod)
            hfd = [fd for fd, m in kern.maps.items() if m["key_size"] == 1]
            E.prove(len(hfd) == 1, "the hash map of the variables exists")
            if len(hfd) != 1:
                return
            hmapm = kern.maps[hfd[0]]
            # (a) defaults after loading
            for i, hv in enumerate(spec["hashvars"]):
                got = getattr(e, f"h{i}")
                E.prove(got == hv["default"], f"a {hv['fmt']} hash variable "
                        "holds its declared default after loading")
            # (b) written values are read back, other cells keep theirs
            vals = {}
            for i, hv in enumerate(spec["hashvars"]):
                vals[i] = fresh(f"hv{i}", hv["fmt"])
                setattr(e, f"h{i}", vals[i])
            for i, hv in enumerate(spec["hashvars"]):
                E.prove(getattr(e, f"h{i}") == vals[i],
                        f"a {hv['fmt']} hash variable written from Python "
                        "reads back unchanged, independent of the others")
            # what the kernel holds: one 8-byte cell per variable, number i+1
            for i, hv in enumerate(spec["hashvars"]):
                w = struct.calcsize(hv["fmt"])
                idx = kern.find(hmapm, [i + 1])
                E.prove(idx is not None, "each variable has its own entry")
                if idx is not None:
                    cell = hmapm["entries"][idx][1]
                    E.prove(len(cell) == 8 and pysym.land(
                        *[cell[j] == b for j, b in
                          enumerate(le_bytes(vals[i], w))]),
                        f"the {hv['fmt']} value sits in the low bytes of the "
                        "variable's 64-bit cell")
            # (c) Dict
            koff, ksz = offsets(spec["key"])
            voff, vsz = offsets(spec["value"])
            E.prove(Key.stack == ksz and Value.stack == vsz,
                    "Structure sizes are the packed sum of the member sizes")
            t = e.table
            dfd = [fd for fd, m in kern.maps.items() if m["key_size"] != 1]
            dm = kern.maps[dfd[0]]
            E.prove(dm["key_size"] == ksz and dm["value_size"] == vsz,
                    "the Dict's map has the structures' sizes")
            k1, v1 = Key(), Value()
            kv = [fresh(f"k{i}", f) for i, f in enumerate(spec["key"])]
            vv = [fresh(f"v{i}", f) for i, f in enumerate(spec["value"])]
            for i, x in enumerate(kv):
                setattr(k1, f"k{i}", x)
            for i, x in enumerate(vv):
                setattr(v1, f"v{i}", x)
            t[k1] = v1
            ent = dm["entries"]
            E.prove(len(ent) == 1, "one entry was inserted")
            if len(ent) == 1:
                good = True
                for (f, off, x) in zip(spec["key"], koff, kv):
                    for j, b in enumerate(le_bytes(x, struct.calcsize(f))):
                        good = pysym.land(good, ent[0][0][off + j] == b)
                for (f, off, x) in zip(spec["value"], voff, vv):
                    for j, b in enumerate(le_bytes(x, struct.calcsize(f))):
                        good = pysym.land(good, ent[0][1][off + j] == b)
                E.prove(good, "key and value reach the kernel in the packed "
                              "little-endian layout the program uses")
            got = t[k1]
            E.prove(pysym.land(*[getattr(got, f"v{i}") == x
                                 for i, x in enumerate(vv)]),
                    "an inserted entry is found with the same member values")
            # modify
            v2 = Value()
            vv2 = [fresh(f"w{i}", f) for i, f in enumerate(spec["value"])]
            for i, x in enumerate(vv2):
                setattr(v2, f"v{i}", x)
            t[k1] = v2
            got = t[k1]
            E.prove(len(dm["entries"]) == 1 and pysym.land(
                *[getattr(got, f"v{i}") == x for i, x in enumerate(vv2)]),
                "a modified entry is found with the new member values")
            # a second key
            k2 = Key()
            for i, x in enumerate(kv):
                setattr(k2, f"k{i}", x)
            other = fresh("k_other", spec["key"][0])
            E.assume(other != kv[0])
            k2.k0 = other
            missing = False
            try:
                t[k2]
            except KeyError:
                missing = True
            E.prove(missing, "looking up an absent key raises KeyError")
            t[k2] = v1
            keys = list(t)
            E.prove(len(keys) == 2 and pysym.land(
                keys[0].k0 == kv[0], keys[1].k0 == other),
                "iteration yields every key once")
            popped = t.pop(k1)
            E.prove(pysym.land(*[getattr(popped, f"v{i}") == x
                                 for i, x in enumerate(vv2)]),
                    "pop returns the entry's value")
            gone = False
            try:
                t[k1]
            except KeyError:
                gone = True
            E.prove(gone, "pop removes the entry")
            E.prove(t.pop(k1, None) is None, "pop of an absent key returns "
                                             "the default")
            del t[k2]
            E.prove(len(dm["entries"]) == 0, "delete removes the entry")
        finally:
            undo()
            pysym.SYM_BYTEARRAYS = False
    return harness


def real_load_maps(e, ebpf_mod):
    """the map part of the real EBPF.load (prog_load itself is the kernel's)"""
    import inspect
    src = inspect.getsource(type(e).load)
    if "__mro__" in src:
        seen = set()
        for cls in type(e).__mro__:
            for k, v in cls.__dict__.items():
                if k not in seen and isinstance(v, ebpf_mod.Map):
                    seen.add(k)
                    v.load(e)
    else:
        for v in type(e).__dict__.values():
            if isinstance(v, ebpf_mod.Map):
                v.load(e)


def python_worker(seed):
    res = pyrun.new_res()
    name = f"program seed {seed} (Python side)"
    try:
        st = pyrun.run("C09", name, python_harness(seed), res, maxtime=300,
                       sig=lambda w: "python|" +
                       w.split(" with inputs")[0].strip()[:80])
        res["samples"].append(dict(harness=name, spec=gen_spec(seed), **{
            k: st[k] for k in ("paths", "aborted", "decisions", "obligations",
                               "queries", "wall")}))
    except Exception as ex:
        import traceback
        res["errors"].append(f"{name}: harness exception {ex} "
                             f"{traceback.format_exc()[-600:]}")
    return res


# ------------------------------------------------------------ program side
def program_side(seed, q, res):
    for part in ("hash", "dict"):
        program_part(seed, q, res, part)


def make_program(spec, part):
    from .. import dsl
    import ebpfcat.arraymap as am
    import ebpfcat.hashmap as hm
    reg = dsl.new_registry()
    Prog, Key, Value = build(dsl.ebpf, am, hm, spec, True)
    nk, nv = len(spec["key"]), len(spec["value"])
    e = Prog(dsl.ProgType.XDP, "GPL")
    for i, hv in enumerate(spec["hashvars"]):
        if part != "hash":
            break
        if hv["role"] == "R":
            setattr(e, f"xh{i}", getattr(e, f"h{i}"))
        else:
            setattr(e, f"h{i}", getattr(e, f"xh{i}"))
    if part == "dict":
        # insert (ka -> key, va -> value)
        for i in range(nk):
            setattr(e.table.key, f"k{i}", getattr(e, f"ka{i}"))
        for i in range(nv):
            setattr(e.table.value, f"v{i}", getattr(e, f"va{i}"))
        e.table.update()
        e.upd = e.r0
        # look up kb
        for i in range(nk):
            setattr(e.table.key, f"k{i}", getattr(e, f"kb{i}"))
        with e.table.lookup() as (value, Else):
            for i in range(nv):
                setattr(e, f"out{i}", getattr(value, f"v{i}"))
            if spec["modify"]:
                value.v0 = e.vmod
        with Else:
            e.miss = 1
    e.r0 = 0
    e.exit()
    code = e.assemble()
    return e, code, list(reg.maps)


def program_part(seed, q, res, part):
    from .. import dsl
    from ..bpfsym import Env, FP, bv, decode, load, merge, run
    import ebpfcat.arraymap as am
    import ebpfcat.hashmap as hm
    spec = gen_spec(seed)
    name = f"program seed {seed} (program side, {part} part)"
    nk, nv = len(spec["key"]), len(spec["value"])
    try:
        e, code, maps = make_program(spec, part)
    except Exception as ex:
        res["obligations"] += 1
        res["violations"].append(dict(
            signature=f"C09|program cannot be generated: {type(ex).__name__}",
            what=f"{name}: generating the program fails with "
                 f"{type(ex).__name__}: {ex}", witness=dict(spec=spec),
            replay=dict(seed=seed)))
        return
    res["programs"] += 1
    hmapi = [m for m in maps if m.kind == "hash" and m.key_size == 1]
    dmap = [m for m in maps if m.kind == "hash" and m.key_size != 1]
    amap = [m for m in maps if m.kind == "array"]
    koff, ksz = offsets(spec["key"])
    voff, vsz = offsets(spec["value"])
    if len(hmapi) != 1 or len(amap) != 1 or len(dmap) != 1 or \
            dmap[0].key_size != ksz or dmap[0].value_size != vsz or \
            hmapi[0].value_size != 8:
        res["obligations"] += 1
        res["violations"].append(dict(
            signature="C09|program|maps created with unexpected sizes",
            what=f"{name}: maps {[(m.kind, m.key_size, m.value_size) for m in maps]}"
                 f" for key size {ksz}, value size {vsz}",
            witness=dict(spec=spec), replay=dict(seed=seed)))
        return
    hmi, dmi, ami = hmapi[0], dmap[0], amap[0]
    dmi.slots = 2
    insns = decode(code)
    env = Env(maps)
    st0 = env.initial()
    # the variables' entries exist once the program is loaded
    pres0 = env._present(hmi, st0)
    slots0 = env._slots(dmi, st0)
    exits = run(insns, env, st0.copy())
    normal = [x for x in exits if x.kind == "exit"]
    g, fin = merge([(x.guard, x.state) for x in normal])
    mem0 = st0.mem
    loaded = [Select(pres0, z3.BitVecVal(i + 1, 8))
              for i in range(len(spec["hashvars"]))]
    base = list(env.assumptions) + loaded + [g]

    def aux(n, w=8, mem=mem0):
        return load(mem, bv(ami.base + e.__dict__[n]), w)
    obl = []
    # hash variables
    for i, hv in enumerate(spec["hashvars"] if part == "hash" else []):
        w = struct.calcsize(hv["fmt"])
        cell = hmi.base + (i + 1) * 8
        if hv["role"] == "R":
            raw = load(mem0, bv(cell), w)
            ext = raw if w == 8 else \
                (SignExt if hv["fmt"].islower() else ZeroExt)(64 - 8 * w, raw)
            obl.append((f"hash variable {i} ({hv['fmt']}): the program reads "
                        "the low bytes of the variable's cell with the "
                        "format's sign", [aux(f"xh{i}", 8, fin.mem) != ext]))
        else:
            ws = struct.calcsize(hv["src"])
            sv = aux(f"xh{i}", ws)
            if ws < 8:
                sv = (SignExt if hv["src"].islower() else ZeroExt)(
                    64 - 8 * ws, sv)
            obl.append((f"hash variable {i} ({hv['fmt']}) assigned from a "
                        f"{hv['src']} variable: the value arrives in the low "
                        "bytes of the variable's cell",
                        [load(fin.mem, bv(cell), w) != Extract(8 * w - 1, 0, sv)]))
    others = [i for i, hv in enumerate(spec["hashvars"])
              if hv["role"] == "R" and part == "hash"]
    for i in others:
        cell = hmi.base + (i + 1) * 8
        obl.append((f"hash variable {i}: its cell is untouched by stores to "
                    "the other variables",
                    [load(fin.mem, bv(cell), 8) != load(mem0, bv(cell), 8)]))
    if part == "dict":
        # Dict: reference key/value bytes from the array cells
        def pack_ref(prefix, fmts, offs, size):
            v = None
            parts = []
            for i, (f, off) in enumerate(zip(fmts, offs)):
                w = struct.calcsize(f)
                parts.append(aux(f"{prefix}{i}", w))
            # little endian concatenation: first member in the low bits
            v = parts[0]
            for p in parts[1:]:
                v = Concat(p, v)
            return v
        KA = pack_ref("ka", spec["key"], koff, ksz)
        VA = pack_ref("va", spec["value"], voff, vsz)
        KB = pack_ref("kb", spec["key"], koff, ksz)
        fslots = fin.aux[("slots", dmi.fd)]
        upd_ok = aux("upd", 8, fin.mem) == 0
        # after a successful update the entry KA -> VA is in the table, except
        # that the later in-place modification may have changed it
        hitA = [And(v, k == KA) for v, k in fslots]
        obl.append(("Dict update: after a successful update the key built from "
                    "the members (packed, little endian) is in the table",
                    [upd_ok, Not(Or(*hitA))]))
        hit0 = [And(v, k == KB) for v, k in slots0]
        # state at the time of the lookup = after the update: use final slots
        # (lookup does not change the slot table) and, for values, the memory
        # before the in-place modification: the copied-out members tell it
        found = Or(*[And(v, k == KB) for v, k in fslots])
        obl.append(("Dict lookup of an absent key takes the Else branch",
                    [Not(found), aux("miss", 8, fin.mem) != 1]))
        obl.append(("Dict lookup of a present key does not take the Else branch",
                    [found, aux("miss", 8, fin.mem) != aux("miss")]))
        for i, (f, off) in enumerate(zip(spec["value"], voff)):
            w = struct.calcsize(f)
            for s, (v, k) in enumerate(fslots):
                vaddr = dmi.base + s * dmi.value_size + off
                if spec["modify"] and i == 0:
                    cur = aux("vmod", w)
                    obl.append((f"Dict lookup: assigning value member 0 ({f}) "
                                "changes the entry in the table",
                                [v, k == KB, load(fin.mem, bv(vaddr), w) != cur]))
                    continue
                raw = load(fin.mem, bv(vaddr), w)
                ext = raw if w == 8 else \
                    (SignExt if f.islower() else ZeroExt)(64 - 8 * w, raw)
                obl.append((f"Dict lookup: value member {i} ({f}) is read from "
                            "its packed offset in the found entry",
                            [v, k == KB, aux(f"out{i}", 8, fin.mem) != ext]))
        # the inserted entry carries the members written (with the lookup
        # obligations above: an entry inserted by the program is found again
        # by the program with the same member values)
        for sidx, (v, k) in enumerate(fslots):
            cond = [upd_ok, v, k == KA]
            if spec["modify"]:
                cond.append(KA != KB)
            obl.append((f"Dict update: the entry stored for the key holds the "
                        f"value members in packed little-endian layout "
                        f"(slot {sidx})",
                        cond + [load(fin.mem, bv(dmi.base + sidx *
                                                 dmi.value_size), vsz) != VA]))
    for pc, gg, ok, text in env.safety:
        obl.append((f"pc {pc}: {text} inside region", [gg, Not(ok)]))
    for oname, fs in obl:
        res["obligations"] += 1
        import time as _t
        _t0 = _t.time()
        r, mdl = q.check(*(list(env.assumptions) + loaded
                           if oname.startswith("pc ") else base), *fs)
        if _t.time() - _t0 > 3 and common.os.environ.get("VERIF_DEBUG"):
            print("   %.1fs %s %s" % (_t.time() - _t0, r, oname), flush=True)
        if r == "unsat":
            res["discharged"] += 1
        elif r == "unknown":
            res["undecided"] += 1
            res["undecided_list"].append(f"{name}: {oname}")
        else:
            rep = replay_prog(mdl, spec, code, maps, hmi, dmi, ami, mem0,
                              pres0, slots0, e, part)
            res["replayed"] += 1
            if rep is None:
                res["errors"].append(f"{name}: '{oname}' counterexample did "
                                     "not reproduce")
            else:
                res["violations"].append(dict(
                    signature="C09|program|" + oname.split(":")[0][:20] + "|" +
                    oname.split(":")[-1].strip()[:50],
                    what=f"{name}: {oname} fails: {rep}",
                    witness=dict(spec=spec, summary=rep),
                    replay=dict(seed=seed)))
    r, _ = q.check(*base)
    res["vacuity"].append((f"{name}: normal end reachable", r == "sat"))
    if part == "dict":
        r, _ = q.check(*base, found)
        res["vacuity"].append((f"{name}: lookup hit reachable", r == "sat"))
    res["samples"].append(dict(
        seed=seed, side="program", instructions=len(insns), spec=spec,
        maps=[(m.kind, m.key_size, m.value_size) for m in maps]))


def replay_prog(model, spec, code, maps, hmi, dmi, ami, mem0, pres0, slots0, e,
                part="dict"):
    """concrete run of the emitted bytes on the model's initial state;
    compare with the Python-level reference semantics"""
    from ..bpfsym import bv
    from ..bpfconc import Fault, Machine
    ev = lambda x: model.eval(x, model_completion=True)
    mem = {}
    for m in (hmi, dmi, ami):
        for i in range(m.area):
            mem[m.base + i] = ev(Select(mem0, bv(m.base + i))).as_long()
    mach = Machine(code, maps, mem=dict(mem))
    # hash map contents of the concrete machine
    present = {i for i in range(256)
               if z3.is_true(ev(Select(pres0, z3.BitVecVal(i, 8))))}
    slots = [(z3.is_true(ev(v)), ev(k).as_long()) for v, k in slots0]
    try:
        mach.load_hash(hmi.fd, {bytes([i]): bytes(
            mem[hmi.base + i * 8 + j] for j in range(8)) for i in present})
        mach.load_hash(dmi.fd, {
            k.to_bytes(dmi.key_size, "little"):
            bytes(mem[dmi.base + s * dmi.value_size + j]
                  for j in range(dmi.value_size))
            for s, (v, k) in enumerate(slots) if v})
    except AttributeError:
        return None
    try:
        r = mach.run()
    except Fault as ex:
        return f"fault {ex}"
    probs = []
    a = lambda n, w=8: int.from_bytes(bytes(
        mem[ami.base + e.__dict__[n] + j] for j in range(w)), "little")
    af = lambda n, w=8: int.from_bytes(bytes(
        mach.ld(ami.base + e.__dict__[n] + j, 1) for j in range(w)), "little")
    h = mach.hash_contents(hmi.fd)
    d = mach.hash_contents(dmi.fd)
    for i, hv in enumerate(spec["hashvars"] if part == "hash" else []):
        w = struct.calcsize(hv["fmt"])
        if hv["role"] == "R":
            cell = bytes(mem[hmi.base + (i + 1) * 8 + j] for j in range(w))
            want = int.from_bytes(cell, "little", signed=hv["fmt"].islower())
            if af(f"xh{i}") != want % 2 ** 64:
                probs.append(f"hash variable {i} ({hv['fmt']}): program read "
                             f"{af(f'xh{i}'):#x}, cell holds {want}")
        else:
            got = h.get(bytes([i + 1]), b"")[:w]
            ws = struct.calcsize(hv["src"])
            sval = int.from_bytes(a(f"xh{i}", ws).to_bytes(ws, "little"),
                                  "little", signed=hv["src"].islower())
            if got != (sval % 2 ** 64).to_bytes(8, "little")[:w]:
                probs.append(f"hash variable {i} ({hv['fmt']}) := "
                             f"{hv['src']} variable holding {sval}: cell gets "
                             f"{got.hex()}")
    if part == "hash":
        return "; ".join(probs[:3]) or None
    koff, ksz = offsets(spec["key"])
    voff, vsz = offsets(spec["value"])
    ka = b"".join(a(f"ka{i}").to_bytes(8, "little")[:struct.calcsize(f)]
                  for i, f in enumerate(spec["key"]))
    kb = b"".join(a(f"kb{i}").to_bytes(8, "little")[:struct.calcsize(f)]
                  for i, f in enumerate(spec["key"]))
    if af("upd") == 0 and ka not in d:
        probs.append(f"update reported success but key {ka.hex()} is not in "
                     f"the table {sorted(k.hex() for k in d)}")
    if kb in d:
        if af("miss") != a("miss"):
            probs.append("present key took the Else branch")
        for i, (f, off) in enumerate(zip(spec["value"], voff)):
            w = struct.calcsize(f)
            want = int.from_bytes(d[kb][off:off + w], "little",
                                  signed=f.islower())
            if spec["modify"] and i == 0:
                if d[kb][off:off + w] != a("vmod").to_bytes(8, "little")[:w]:
                    probs.append("in-place modification not in the table")
            elif af(f"out{i}") != want % 2 ** 64:
                probs.append(f"value member {i} ({f}): read {af(f'out{i}'):#x},"
                             f" entry holds {want}")
    elif af("miss") != 1:
        probs.append("absent key did not take the Else branch")
    return "; ".join(probs[:3]) or None


def program_worker(seed, part=None):
    res = dict(obligations=0, discharged=0, undecided=0, programs=0,
               replayed=0, violations=[], errors=[], undecided_list=[],
               samples=[], vacuity=[], queries=0, solver_s=0.0)
    q = common.Q(rlimit=20_000_000, timeout_ms=30_000, fb_timeout=30)
    try:
        if part is None:
            program_side(seed, q, res)
        else:
            program_part(seed, q, res, part)
    except Exception as ex:
        import traceback
        res["errors"].append(f"seed {seed} program side: {type(ex).__name__} "
                             f"{ex} {traceback.format_exc()[-700:]}")
    res["queries"], res["solver_s"] = q.queries, q.solver_s
    return res


def worker(args):
    kind, seed = args
    if kind == "prog":
        return program_worker(seed)
    if kind in ("hash", "dict"):
        return program_worker(seed, kind)
    return python_worker(seed)


def main(tier, replay_file=None):
    n = 8 if tier == "quick" else 60
    ck = common.Check(
        "C09", tier, "translation_validation", FUNCTIONS,
        bounds=dict(programs=f"{n} seeded programs (seed base {common.seed()}): "
                             "1-3 hash variables (formats bBhHiIqQ, defaults "
                             "0..99, 30% declared in a base class), a Dict "
                             "(size 3, 20% LRU) with packed Structure key and "
                             "value of 1-3 members",
                    python="one scripted sequence: defaults, set/get of every "
                           "variable, insert, lookup, modify, absent lookup, "
                           "second key, iteration, pop, pop absent, delete; "
                           "every written value symbolic",
                    program="one program: copy hash variables in or out, "
                            "insert an entry, look up a second key (copy "
                            "members out, 50% modify member 0 in place, Else "
                            "branch); all map contents, the 2-slot table and "
                            "all inputs symbolic",
                    outside="x-format hash variables; more than 3 entries; LRU "
                            "eviction; longer operation sequences"),
        stubs=["kernel model of the bpf map commands (Python side)",
               "engine A's hash map models: presence array for 1-byte keys, "
               "2-slot table for Dict maps"])
    base = common.seed()
    items = [(k, base * 1000 + i) for i in range(n)
             for k in ("dict", "hash", "py")]
    for res in common.pmap(worker, items):
        ck.add(res)
    return ck.finish()
