"""C17 -- EEPROM contents and derived layouts are decoded exactly.

The real Terminal._eeprom_read_one / read_eeprom / parse_sync_managers /
parse_pdos run symbolically against an SII (EEPROM interface) register model:
image content, category word-lengths, busy durations and 4- vs 8-byte read
capability are solver variables; category types (dict keys) are enumerated.
"""
import itertools

from .. import busmodel, common, pyrun, pysym
from ..pysym import E, land, lnot, lor

FUNCTIONS = ["ebpfcat/ethercat.py:Terminal._eeprom_read_one",
             "ebpfcat/ethercat.py:Terminal.read_eeprom",
             "ebpfcat/ethercat.py:Terminal.parse_sync_managers",
             "ebpfcat/ethercat.py:Terminal.parse_pdos (EEPROM source)",
             "ebpfcat/ethercat.py:Terminal.read/write, EtherCat.roundtrip"]


class SIITerminal(busmodel.TerminalModel):
    """ESC EEPROM interface: 0x502 control/status, 0x504 address, 0x508 data"""

    def __init__(self, image, eight, max_busy, busy_cmds=2):
        super().__init__("sii", position=1000)
        self.image = image            # bytes-like rope, byte offset = 2*word
        self.eight = eight            # supports 8-byte reads
        self.max_busy = max_busy
        self.busy_cmds = busy_cmds
        self.busy = 0
        self.addr = 0
        self.data = None
        self.pending_data = None
        self.ncmd = 0
        self.reads = []

    def write_502(self, data):
        n = pysym.sym_len(data)
        ctl, = pysym.sym_unpack_from("<H", data, 0)
        if bool(n >= 6):
            self.addr, = pysym.sym_unpack_from("<I", data, 2)
        if bool(ctl & 0x100 != 0):       # read command
            self.ncmd += 1
            self.busy = int(E.int(f"busy{self.ncmd}", 0, self.max_busy)) \
                if self.ncmd <= self.busy_cmds else 0
            a = int(self.addr)
            self.reads.append(a)
            width = 8 if self.eight else 4
            new = self.image[2 * a:2 * a + width]
            if not self.eight:
                new = new + E.bytes(f"junk{self.ncmd}", 4)
            # the data register keeps its previous content while the
            # interface is busy and shows the new words once it is idle
            if self.busy > 0:
                self.pending_data = new
            else:
                self.data, self.pending_data = new, None

    def read_502(self, n):
        if self.busy > 0:
            self.busy -= 1
            st = 0x8000
        else:
            st = 0
            if self.pending_data is not None:
                self.data, self.pending_data = self.pending_data, None
        if self.eight:
            st |= 0x40
        st = st | (E.int(f"st_other{self.ncmd}_{self.busy}", bits=16) & 0x3fbf
                   if not E.concrete else 0)
        out = pysym.sym_pack("<HI", st, self.addr)
        d = self.data if self.data is not None else bytes(8)
        out = out + d
        return out[:n]


def build_image(ncat, types, maxws):
    """-> (image rope, expectations)"""
    ident = [E.int(f"id{i}", bits=32) for i in range(4)]
    head = E.bytes("head", 16) + pysym.sym_pack("<IIII", *ident) \
        + E.bytes("head2", 0x80 - 32)
    cats = []
    body = b""
    for i in range(ncat):
        ws = E.int(f"ws{i}", 0, maxws)
        d = E.bytes(f"cat{i}", ws * 2)
        cats.append((types[i], ws, d))
        body = body + pysym.sym_pack("<HH", types[i], ws) + d
    body = body + pysym.sym_pack("<H", 0xffff) + E.bytes("tail", 24)
    return head + body, ident, cats


def eeprom_harness(ncat, types, maxws, eight, max_busy, busy_cmds=2):
    def harness():
        eth = pysym.module("ethercat")
        image, ident, cats = build_image(ncat, types, maxws)
        model = SIITerminal(image, eight, max_busy, busy_cmds)
        bus = busmodel.Bus(eth, [model])
        out = {}

        async def main():
            ec = busmodel.make_ec(eth)
            t = eth.Terminal(ec)
            t.position = 1000
            await busmodel.with_bus(ec, bus, t.read_eeprom())
            out["t"] = t
        pysym.run_async(main, max_steps=40000)
        t = out["t"]
        E.prove(land(t.vendorId == ident[0], t.productCode == ident[1],
                     t.revisionNo == ident[2], t.serialNo == ident[3]),
                "identity fields are returned as stored")
        E.prove(sorted(t.eeprom) == sorted(c[0] for c in cats),
                f"exactly the stored category types are returned "
                f"({sorted(t.eeprom)} vs {sorted(c[0] for c in cats)})")
        for ty, ws, d in cats:
            if ty in t.eeprom:
                E.prove(pysym.beq(t.eeprom[ty], d),
                        f"category {ty}: contents returned exactly as stored")
    return harness


def sm_harness(n):
    def harness():
        eth = pysym.module("ethercat")
        entries = []
        data = b""
        for i in range(n):
            off = E.int(f"off{i}", bits=16)
            size = E.int(f"size{i}", bits=16)
            mode = E.int(f"mode{i}", bits=8)
            E.assume(lor(*[mode & 0xf == m for m in (0, 2, 4, 6)]))
            rest = E.bytes(f"rest{i}", 3)
            entries.append((off, size, mode))
            data = data + pysym.sym_pack("<HHB", off, size, mode) + rest
        t = eth.Terminal(None)
        t.parse_sync_managers(data)
        # the last entry of each kind wins (as stored order)
        exp = dict(pdo_in=(None, None, 0x818), mbx_in=(None, None),
                   pdo_out=(None, None, 0x810), mbx_out=(None, None))
        for i, (off, size, mode) in enumerate(entries):
            m = int(mode & 0xf)
            if m == 0:
                exp["pdo_in"] = (off, size, 0x800 + 8 * i)
            elif m == 2:
                exp["mbx_in"] = (off, size)
            elif m == 4:
                exp["pdo_out"] = (off, size, 0x800 + 8 * i)
            else:
                exp["mbx_out"] = (off, size)

        def same(a, b):
            if a is None or b is None:
                return a is None and b is None
            return a == b
        E.prove(land(same(t.pdo_in_off, exp["pdo_in"][0]),
                     same(t.pdo_in_sz, exp["pdo_in"][1]),
                     t.pdo_in_addr == exp["pdo_in"][2]),
                "input process-data area: offset, size, sync-manager register")
        E.prove(land(same(t.pdo_out_off, exp["pdo_out"][0]),
                     same(t.pdo_out_sz, exp["pdo_out"][1]),
                     t.pdo_out_addr == exp["pdo_out"][2]),
                "output process-data area: offset, size, sync-manager register")
        E.prove(land(same(t.mbx_in_off, exp["mbx_in"][0]),
                     same(t.mbx_in_sz, exp["mbx_in"][1])),
                "input mailbox: offset and size")
        E.prove(land(same(t.mbx_out_off, exp["mbx_out"][0]),
                     same(t.mbx_out_sz, exp["mbx_out"][1])),
                "output mailbox: offset and size")
    return harness


BITS = (1, 2, 3, 4, 8, 16, 32, 64)


def pdo_harness(shape):
    """shape: list of PDOs, each a number of entries"""
    def harness():
        eth = pysym.module("ethercat")
        cat = {}
        expect = {}
        for sm_name, code in (("OUT", 51), ("IN", 50)):
            data = b""
            bitpos = 0
            n = 0
            for p, nent in enumerate(shape):
                data = data + pysym.sym_pack(
                    "<HBbBBH", 0x1600 + p, nent, E.int(f"sm{code}_{p}", bits=8,
                                                      signed=True),
                    0, 0, 0)
                for k in range(nent):
                    gap = bool(E.bool(f"gap{code}_{p}_{k}"))
                    idx = 0 if gap else 0x6000 + 0x10 * p + (0x1000 if code == 51 else 0)
                    sub = k + 1
                    bits = E.int(f"bits{code}_{p}_{k}", 1, 64)
                    E.assume(lor(*[bits == b for b in BITS]))
                    aligned = lor(bits < 8, bitpos % 8 == 0) if not gap else True
                    data = data + pysym.sym_pack("<HBBBB2x", idx, sub, 0, 0, bits)
                    if not gap:
                        expect[(code, idx, sub)] = (bitpos, bits)
                    bitpos = bitpos + bits
                    n += 1
            cat[code] = (data, bitpos)
        t = eth.Terminal(None)
        t.eeprom = {c: d for c, (d, _) in cat.items()}
        t.mbx_out_off = t.mbx_in_off = None        # no mailbox: EEPROM source
        out = {}

        async def main():
            try:
                out["ret"] = await t.parse_pdos()
            except RuntimeError as ex:
                out["raised"] = ex
        pysym.run_async(main, max_steps=4000)
        misaligned = False
        for (code, idx, sub), (pos, bits) in expect.items():
            if bool(land(bits >= 8, pos % 8 != 0)):
                misaligned = True
        if "raised" in out:
            E.prove(misaligned, "parse_pdos raises only for byte-sized entries "
                                "that are not byte-aligned")
            return
        E.prove(not misaligned, "misaligned byte-sized entries are rejected")
        E.prove(land(out["ret"][0] == cat[51][1], out["ret"][1] == cat[50][1]),
                "returned output / input bit counts are the sums stored")
        sms = {51: eth.SyncManager.OUT, 50: eth.SyncManager.IN}
        E.prove(len(t.pdos) == len(expect), "exactly the non-gap entries are "
                                            "mapped")
        for (code, idx, sub), (pos, bits) in expect.items():
            got = t.pdos.get((idx, sub))
            if got is None:
                E.fail(f"entry {idx:x}:{sub} missing")
                continue
            sm, off, what = got
            if bool(bits < 8):
                E.prove(land(sm is sms[code], off == pos // 8,
                             what == pos % 8),
                        "bit entry: sync manager, byte offset and bit position")
            else:
                fmt = {8: "B", 16: "H", 32: "I", 64: "Q"}[int(bits)]
                E.prove(land(sm is sms[code], off == pos // 8, what == fmt),
                        "byte entry: sync manager, byte offset and size")
    return harness


def worker(args):
    kind = args[0]
    res = pyrun.new_res()
    if kind == "eeprom":
        _, ncat, types, maxws, eight, busy, bc = args
        name = (f"read_eeprom: categories {list(types[:ncat])}, word lengths "
                f"0..{maxws}, {'8' if eight else '4'}-byte reads, busy<={busy}")
        h = eeprom_harness(ncat, types, maxws, eight, busy, bc)
    elif kind == "sm":
        name = f"parse_sync_managers: {args[1]} entries"
        h = sm_harness(args[1])
    else:
        name = f"parse_pdos (EEPROM): PDO entry counts {args[1]}"
        h = pdo_harness(args[1])
    try:
        st = pyrun.run("C17", name, h, res, maxtime=600,
                       sig=lambda w: w.split("(")[0].split(":")[0].strip()[:70])
        res["samples"].append(dict(harness=name, **{
            k: st[k] for k in ("paths", "aborted", "decisions", "obligations",
                               "queries", "wall")}))
    except Exception as ex:
        import traceback
        res["errors"].append(f"{name}: harness exception {ex} "
                             f"{traceback.format_exc()[-500:]}")
    return res


def main(tier, replay_file=None):
    quick = tier == "quick"
    ck = common.Check(
        "C17", tier, "model_checking", FUNCTIONS,
        bounds=dict(categories="0..2 (thorough 0..3) categories with "
                               "enumerated distinct types, word length "
                               "0..3 (4) symbolic, contents symbolic",
                    identity="vendor, product, revision, serial: 32-bit symbolic",
                    interface="4- and 8-byte reads; busy 0..1 polls for the "
                              "first 2 (3) read commands (symbolic), 0 after; unused status bits symbolic",
                    sync_managers="1..4 entries, offset/size/mode symbolic",
                    pdos="up to 2 PDOs, up to 2 entries in all per direction, "
                         "bit lengths from {1,2,3,4,8,16,32,64} symbolic, gaps "
                         "(index 0) chosen by the solver",
                    outside="PDO layout read through SDO (mailbox terminals); "
                            "more categories / entries"),
        stubs=["SII register model (0x502/0x504/0x508) per the ESC data sheet; "
               "while busy the data register keeps the previous read's words",
               "bus model at the datagram interface"])
    items = []
    maxws = 3 if quick else 4
    busy = 1
    typesets = [(41, 50, 51), (10, 30, 41)]
    for ncat in ([0, 1, 2] if quick else [0, 1, 2, 3]):
        for eight in (True, False):
            for ts in (typesets[:1] if quick else typesets):
                items.append(("eeprom", ncat, ts, maxws, eight, busy,
                              2 if quick else 3))
    for n in (1, 2, 3, 4):
        items.append(("sm", n))
    for shape in [[1], [2], [1, 1]]:      # larger PDO shapes exhaust the budget
        items.append(("pdo", shape))
    for res in common.pmap(worker, items):
        ck.add(res)
    return ck.finish()
