"""C10 -- user-space map calls never overrun Python buffers.

Seeded random programs declare hash-map variables of random formats, a
per-CPU array map and a Dict with random Structure key/value layouts.  Every
user-space map operation of the library's Python API is then issued through
the real code (HashGlobalVarDesc.__get__/__set__, HashMap.load,
PerCPUReader.read, TheDict set/get/pop/del/iteration and the real
ebpfcat.bpf wrappers); the ctypes layer below them is replaced by a kernel
model (vf/bpfkernel.py) that proves, for every call, that the key and value
buffers cover what the kernel reads or writes.  The number of possible CPUs
is an engine decision (it may exceed the number of online CPUs).
"""
import random

from .. import bpfkernel, common, pyrun, pysym
from ..pysym import E

FUNCTIONS = ["ebpfcat/bpf.py:_lookup_elem, lookup_elem, lookup_and_delete_elem, "
             "update_elem, delete_elem, get_next_key, create_map",
             "ebpfcat/hashmap.py:HashGlobalVarDesc.__get__/__set__, "
             "HashMap.init/load",
             "ebpfcat/hashmap.py:TheDict.__setitem__/__getitem__/pop/"
             "__delitem__/__iter__, Dict.init",
             "ebpfcat/arraymap.py:PerCPUReader.read, PerCPUArrayMap.create_map",
             "ebpfcat/ebpf.py:Structure.__init__, Member"]
FMTS = "bBhHiIqQ"
HASHFMTS = list(FMTS) + ["<H", ">I", "!i", "<q", ">B", "!h"]
ONLINE = 4
POSSIBLE = [4, 5, 8, 64]


def gen_spec(seed):
    rng = random.Random(seed)

    def struct_fmts():
        # structures must be packed: sizes in non-increasing alignment order
        fm = sorted((rng.choice(FMTS) for _ in range(rng.randint(1, 3))),
                    key=lambda f: -("bBhHiIqQ".index(f) // 2))
        return fm
    return dict(seed=seed,
                hashvars=[(rng.choice(HASHFMTS), rng.randrange(-5, 100))
                          for _ in range(rng.randint(1, 3))],
                percpu=[rng.choice(FMTS) for _ in range(rng.randint(0, 2))],
                key=struct_fmts(), value=struct_fmts(),
                lru=rng.random() < 0.3)


def build(spec):
    ebpf_mod = pysym.module("ebpf")
    am = pysym.module("arraymap")
    hm = pysym.module("hashmap")
    ns = {}
    hmap = hm.HashMap()
    ns["hmap"] = hmap
    for i, (f, d) in enumerate(spec["hashvars"]):
        ns[f"h{i}"] = hmap.globalVar(f, default=d if f[-1].islower() else abs(d))
    if spec["percpu"]:
        pc = am.PerCPUArrayMap()
        ns["pc"] = pc
        for i, f in enumerate(spec["percpu"]):
            ns[f"c{i}"] = pc.globalVar(f)
    Key = type("Key", (ebpf_mod.Structure,),
               {f"k{i}": ebpf_mod.Member(f) for i, f in enumerate(spec["key"])})
    Value = type("Value", (ebpf_mod.Structure,),
                 {f"v{i}": ebpf_mod.Member(f)
                  for i, f in enumerate(spec["value"])})
    ns["table"] = hm.Dict(Key, Value, size=4, lru=spec["lru"])
    Prog = type("Prog", (ebpf_mod.EBPF,), ns)
    return Prog, Key, Value


def harness_for(seed):
    def harness():
        spec = gen_spec(seed)
        bpfm = pysym.module("bpf")
        am = pysym.module("arraymap")
        ebpf_mod = pysym.module("ebpf")
        # any number of possible CPUs from the online ones upwards
        kern = bpfkernel.Kernel(E.int("possible_cpus", ONLINE, 4096))
        undo = kern.install(bpfm)
        undo_cpus = bpfkernel.stub_cpus(am, ONLINE, kern.possible)
        pysym.SYM_BYTEARRAYS = True
        try:
            Prog, Key, Value = build(spec)
            e = Prog(bpfm.ProgType.XDP, "GPL")
            e.loaded = True
            for cls in type(e).__mro__:
                for v in cls.__dict__.values():
                    if isinstance(v, ebpf_mod.Map):
                        v.load(e)
            for i, (f, d) in enumerate(spec["hashvars"]):
                getattr(e, f"h{i}")
                setattr(e, f"h{i}", 7)
                getattr(e, f"h{i}")
            if spec["percpu"]:
                e.pc.read()
                for i, f in enumerate(spec["percpu"]):
                    seq = getattr(e, f"c{i}")
                    seq[0]
                    seq[ONLINE - 1]
            t = e.table
            k1, k2 = Key(), Key()
            k1.k0, k2.k0 = 1, 2
            v = Value()
            v.v0 = 3
            t[k1] = v
            t[k2] = v
            t[k1]
            for k in t:
                t[k]
            t.pop(k1)
            t.pop(k1, None)
            del t[k2]
            try:
                t[k2]
            except KeyError:
                pass
        except bpfkernel.KernelFault:
            pass
        finally:
            undo()
            undo_cpus()
            pysym.SYM_BYTEARRAYS = False
        E.prove(len(kern.log) > 0, "map operations were issued")
    return harness


def worker(seed):
    res = pyrun.new_res()
    spec = gen_spec(seed)
    name = f"program seed {seed}"
    try:
        st = pyrun.run("C10", name, harness_for(seed), res, maxtime=300,
                       sig=lambda w: w.split(" with inputs")[0].split(", the "
                       "kernel")[0].strip()[:90])
        res["samples"].append(dict(harness=name, spec=spec, **{
            k: st[k] for k in ("paths", "aborted", "decisions", "obligations",
                               "queries", "wall")}))
    except Exception as ex:
        import traceback
        res["errors"].append(f"{name}: harness exception {ex} "
                             f"{traceback.format_exc()[-600:]}")
    return res


def main(tier, replay_file=None):
    n = 8 if tier == "quick" else 60
    ck = common.Check(
        "C10", tier, "model_checking", FUNCTIONS,
        bounds=dict(programs=f"{n} seeded programs (seed base {common.seed()}): "
                             "1-3 hash-map variables of formats bBhHiIqQ (some "
                             "with a byte-order prefix) with "
                             "defaults, 0-2 per-CPU variables, a Dict (HASH or "
                             "LRU) with packed Structure key and value of 1-3 "
                             "members",
                    operations="load defaults, get/set of every hash variable, "
                               "per-CPU read and element access, Dict set / get "
                               "/ iteration / pop (present, absent with "
                               "default) / delete / get of an absent key",
                    cpus=f"{ONLINE} online CPUs; the number of possible CPUs is "
                         f"a solver variable in [{ONLINE}, 4096]",
                    outside="formats other than the integer ones; maps pinned "
                            "and re-opened"),
        stubs=["ctypes address taking and the bpf system call replaced by a "
               "kernel model that checks buffer sizes against the map's key / "
               "value size as the kernel accesses them",
               "os.cpu_count and /sys/devices/system/cpu/{possible,online}"])
    base = common.seed()
    for res in common.pmap(worker, [base * 1000 + i for i in range(n)]):
        ck.add(res)
    return ck.finish()
