"""C21 -- fast-group frames only write outputs computed in the same pass.

(i) SterilePacket.sterile (real Python, run on the enumerated layouts and
parsed by an independent frame parser): every write datagram's command
byte is NOP, everything else equals the assembled frame.
(ii) the real FastSyncGroup.program (SterilePacket.activate) for group
layouts with 1-3 write and 0-2 read datagrams is compiled and executed
symbolically on a fully symbolic frame / map: with output enabled exactly
the write datagrams are re-enabled, their working counters cleared and one
error counted per write datagram whose counter differed; otherwise nothing
changes.
(iii) composition with the dispatcher: on every dispatcher exit that
returns the frame to the bus without the group program only the index byte
changes (re-checked here on the real dispatcher bytecode).
(iv) histories: bounded model checking of the dispatcher summary over all
deliver / lose / inject sequences from an empty network and any counter: a
frame whose write datagrams were enabled by the group program is never
returned to the bus by the dispatcher alone.
"""
import struct

import z3
from z3 import (And, BitVec, BoolVal, Extract, If, Not, Or, Select, UGE, ULT,
                ZeroExt)

from .. import common, dsl, fastgroup
from ..bpfsym import EngineError, Env, PKT, bv, decode, disasm, load, merge, run
from ..bpfconc import Fault, Machine
from . import c22

FUNCTIONS = [
    "ebpfcat/ebpfcat.py:SterilePacket.sterile/append/append_writer/"
    "append_fmmu/activate",
    "ebpfcat/ebpfcat.py:FastSyncGroup.program",
    "ebpfcat/ebpfcat.py:SyncGroupBase.allocate, EBPFTerminal.allocate",
    "ebpfcat/ethercat.py:Packet.append/assemble",
    "ebpfcat/ebpfcat.py:EtherXDP.program (composition, via C22 summary)",
]

# (name, [(in_sz, out_sz, use_fmmu, readwrite)])
LAYOUTS = [
    ("one FMMU terminal in+out", [(4, 2, True, True)]),
    ("two FMMU terminals, one read-only", [(4, 2, True, True), (6, 0, True, False)]),
    ("direct terminal in+out", [(3, 5, False, True)]),
    ("two direct terminals (2 writers, 2 readers)",
     [(2, 2, False, True), (8, 1, False, True)]),
    ("direct + FMMU mixed (3 writers)",
     [(2, 2, False, True), (1, 1, False, True), (4, 4, True, True)]),
    ("output only", [(0, 4, True, True)]),
]


def build(layout):
    from ebpfcat.ebpfcat import Device, TerminalVar
    dsl.new_registry()
    ec = fastgroup.BusStub()

    class Touch(Device):
        a = TerminalVar()
        b = TerminalVar()

        def program(self):
            pass
    devs, terms = [], []
    for n, (isz, osz, fmmu, rw) in enumerate(layout[1]):
        pdos = {}
        if isz:
            pdos[(0x6000, 1)] = (fastgroup.IN, 0, "B")
        if osz:
            pdos[(0x7000, 1)] = (fastgroup.OUT, 0, "B")
        t = fastgroup.make_terminal(fastgroup.terminals.Generic, ec, 10 + n,
                                    pdos, isz, osz, use_fmmu=fmmu,
                                    in_off=0x1100 + 16 * n,
                                    out_off=0x1000 + 16 * n)
        from ebpfcat.ebpfcat import ProcessDesc
        d = Touch()
        if isz:
            d.a = ProcessDesc(0x6000, 1).__get__(t, type(t))
        if osz and rw:
            d.b = ProcessDesc(0x7000, 1).__get__(t, type(t))
        devs.append(d)
        terms.append(t)
    sg, code, maps = fastgroup.fast_group(ec, devs)
    return sg, code, maps


def parse_frame(frame):
    """independent EtherCAT frame parser (ETG.1000.4): list of datagrams
    (cmd, idx, addr bytes, length, more, data_pos, wkc_pos)"""
    hdr, = struct.unpack_from("<H", frame, 0)
    length = hdr & 0x7ff
    pos = 2
    out = []
    more = True
    while more:
        cmd, idx = frame[pos], frame[pos + 1]
        addr = frame[pos + 2:pos + 6]
        ln, = struct.unpack_from("<H", frame, pos + 6)
        more = bool(ln & 0x8000)
        n = ln & 0x7ff
        out.append(dict(cmd=cmd, idx=idx, addr=bytes(addr), len=n, pos=pos,
                        data=pos + 10, wkc=pos + 10 + n))
        pos += 12 + n
    return length, out, pos


def check_sterile(layout, sg, res):
    """(i) on the real SterilePacket of this layout"""
    pk = sg.packet
    for index, et in ((5, 0x88A4), (63, 0x3456), (0, 0x5fff)):
        res["obligations"] += 1
        asm = pk.assemble(index, et)
        ste = bytes(pk.sterile(index, et))
        length, dg, end = parse_frame(asm)
        writers = [d for d in dg if d["cmd"] in (2, 5, 8, 11, 3, 6, 9, 12, 13, 14)]
        ok = len(asm) == len(ste) and length == end - 2
        diffs = [i for i in range(len(asm)) if asm[i] != ste[i]]
        ok = ok and diffs == [d["pos"] for d in writers]
        ok = ok and all(ste[d["pos"]] == 0 for d in writers)
        ok = ok and len(writers) == len(pk.on_the_fly)
        # expected counters sit where SterilePacket.counters says
        for p, cnt in pk.counters.items():
            ok = ok and struct.unpack_from("<H", asm, p)[0] == cnt
        if ok:
            res["discharged"] += 1
        else:
            res["violations"].append(dict(
                signature="C21|sterile copy differs from assembled frame "
                          "other than NOP on writers",
                what=f"{layout[0]}: sterile({index},{et:#x}) differs at "
                     f"{diffs}, writers at {[d['pos'] for d in writers]}",
                witness=dict(assembled=asm.hex(), sterile=ste.hex()),
                replay=dict(layout=list(layout))))
    return


def check_layout(layout, q, res):
    sg, code, maps = build(layout)
    res["programs"] += 1
    check_sterile(layout, sg, res)
    insns = decode(code)
    env = Env(maps, pkt_max=1600)
    st0 = env.initial()
    exits = run(insns, env, st0.copy())
    g, fin = merge([(x.guard, x.state) for x in exits if x.kind == "exit"])
    mem0 = st0.mem
    L = env.pkt_len
    base = list(env.assumptions)
    pk = sg.packet
    need = pk.size + 14
    mp = maps[0]
    wk_a = mp.base + sg.__dict__["wkc_errors"]
    wkc0 = load(mem0, bv(wk_a), 4)
    wkc1 = load(fin.mem, bv(wk_a), 4)
    active = And(UGE(L, bv(need)), wkc0 != 0)
    writers = [(start + 14, stop + 14 - 2, cmd.value, pk.counters[stop - 2])
               for start, stop, cmd in pk.on_the_fly]
    j = BitVec("j", 64)
    special = set()
    for cpos, wpos, _, _ in writers:
        special |= {cpos, wpos, wpos + 1}
    errs = bv(0, 32)
    for cpos, wpos, cmdv, exp in writers:
        errs = errs + If(load(mem0, bv(PKT + wpos), 2) != bv(exp, 16),
                         bv(1, 32), bv(0, 32))
    r0s = [And(x.guard, x.state.regs[0] != bv(3)) for x in exits
           if x.kind == "exit"]
    obl = [
        ("the group program always ends with XDP_TX", [Or(Not(g), *r0s)]),
        ("with output enabled the error counter grows by the number of write "
         "datagrams whose working counter differs from the expected value",
         [g, active, wkc1 != wkc0 + errs]),
        ("without output enabled (or short frame) frame and counters are "
         "unchanged", [g, Not(active),
                       Or(wkc1 != wkc0,
                          And(ULT(j, L), Select(fin.mem, bv(PKT) + j)
                              != Select(mem0, bv(PKT) + j)))]),
        ("only command byte and working counter of write datagrams change",
         [g, active, ULT(j, L), And(*[j != bv(s) for s in sorted(special)]),
          Select(fin.mem, bv(PKT) + j) != Select(mem0, bv(PKT) + j)]),
    ]
    for n, (cpos, wpos, cmdv, exp) in enumerate(writers):
        obl.append((f"writer {n}: command re-enabled ({cmdv}) and working "
                    "counter cleared when output is enabled",
                    [g, active, Or(load(fin.mem, bv(PKT + cpos), 1) != bv(cmdv, 8),
                                   load(fin.mem, bv(PKT + wpos), 2) != bv(0, 16))]))
    for pc, gg, ok, text in env.safety:
        obl.append((f"pc {pc}: {text} inside its region", [gg, Not(ok)]))
    for pc, gg, ok, text in env.inits:
        if not z3.is_true(ok):
            obl.append((f"pc {pc}: {text} initialised", [gg, Not(ok)]))
    for name, fs in obl:
        res["obligations"] += 1
        r, m = q.check(*base, *fs)
        if r == "unsat":
            res["discharged"] += 1
        elif r == "unknown":
            res["undecided"] += 1
            res["undecided_list"].append(f"{layout[0]}: {name}")
        else:
            rep = replay(m, code, maps, mem0, L, writers, wk_a, need)
            res["replayed"] += 1
            if rep is None:
                res["errors"].append(f"{layout[0]}: '{name}' did not reproduce")
            else:
                res["violations"].append(dict(
                    signature=f"C21|{name[:70]}",
                    what=f"{layout[0]}: {name} fails: {rep}", witness=rep,
                    replay=dict(layout=list(layout))))
    r, _ = q.check(*base, g, active)
    res["vacuity"].append((f"enabled pass reachable: {layout[0]}", r == "sat"))
    res["samples"].append(dict(layout=layout[0], frame_size=need,
                               writers=[dict(cmd_pos=c, wkc_pos=w, cmd=v,
                                             expected_wkc=e)
                                        for c, w, v, e in writers],
                               instructions=len(insns)))


def replay(model, code, maps, mem0, L, writers, wk_a, need):
    ev = lambda t: model.eval(t, model_completion=True)
    n = ev(L).as_long()
    pkt = bytes(ev(Select(mem0, bv(PKT + i))).as_long() for i in range(n))
    mp = maps[0]
    mem = {mp.base + i: ev(Select(mem0, bv(mp.base + i))).as_long()
           for i in range(mp.area)}
    w0 = sum(mem.get(wk_a + i, 0) << (8 * i) for i in range(4))
    m = Machine(code, maps, packet=pkt, mem=mem)
    try:
        r = m.run()
    except Fault as ex:
        return f"fault {ex}"
    out = bytes(m.mem.get(PKT + i, 0) for i in range(n))
    w1 = m.ld(wk_a, 4)
    exp = bytearray(pkt)
    e1 = w0
    if n >= need and w0 != 0:
        for cpos, wpos, cmdv, ex in writers:
            exp[cpos] = cmdv
            if struct.unpack_from("<H", pkt, wpos)[0] != ex:
                e1 += 1
            exp[wpos:wpos + 2] = b"\0\0"
    problems = []
    if r != ("exit", 3):
        problems.append(f"ends with {r}")
    if bytes(exp) != out:
        d = [i for i in range(n) if exp[i] != out[i]]
        problems.append(f"frame differs from expectation at offsets {d}")
    if w1 != e1 & 0xffffffff:
        problems.append(f"wkc_errors {w0}->{w1}, expected {e1}")
    return ("; ".join(problems) + f" [len={n}, wkc_errors={w0}]") \
        if problems else None


def dispatcher_composition(q, res):
    """(iii): dispatcher exits that do not run the group change only the
    index byte (TX) / index byte and ethertype (PASS)"""
    tmp = dict(violations=[], replayed=0)
    e, code, maps, wa = c22.assemble_as_library(tmp)
    for v in tmp["violations"]:
        v["signature"] = v["signature"].replace("C22|", "C21|")
        res["violations"].append(v)
    op = c22.OnePass(e, code, maps)
    j = BitVec("j", 64)
    L = op.env.pkt_len
    for x in op.exits:
        if x.kind != "exit":
            continue
        res["obligations"] += 1
        r, m = q.check(*op.env.assumptions, x.guard, ULT(j, L), j != 17,
                       Or(x.state.regs[0] == bv(3), And(j != 12, j != 13)),
                       Select(x.state.mem, bv(PKT) + j)
                       != Select(op.mem0, bv(PKT) + j))
        if r == "unsat":
            res["discharged"] += 1
        elif r == "unknown":
            res["undecided"] += 1
            res["undecided_list"].append(f"dispatcher exit pc {x.pc}")
        else:
            rep = c22.replay_one_pass(op, m, "composition")
            res["replayed"] += 1
            res["violations"].append(dict(
                signature="C21|dispatcher modifies a frame it does not hand "
                          "to the group program",
                what=f"dispatcher exit at pc {x.pc} changes frame bytes other "
                     f"than index/ethertype: {rep}", witness=rep,
                replay=dict(kind="dispatcher")))
    return wa


def dispatcher_histories(q, res, depth):
    """(iv): over all histories (deliver / lose / inject, any order) from an
    empty network and any counter value: a frame whose write datagrams the
    group program has enabled never goes back to the bus without the group
    program having run on it in that pass (its outputs would be those of an
    earlier pass)"""
    from z3 import Or as zOr
    tmp = dict(violations=[], replayed=0)
    with c22.ownership_workaround():
        e, code, maps = c22.build_dispatcher()
    for g in (0, 63):
        res.setdefault("states", 0)
        res.setdefault("transitions", 0)
        B = c22.history_bmc(e, code, maps, q, res, depth, True, g)
        res["obligations"] += 1
        r, m = q.check(*B["cons"], zOr(*B["stale"]))
        name = (f"registered group {g}: a frame with enabled write datagrams "
                f"is never returned to the bus without the group program "
                f"(depth {depth})")
        if r == "unsat":
            res["discharged"] += 1
        elif r == "unknown":
            res["undecided"] += 1
            res["undecided_list"].append(name)
        else:
            acts = c22.decode_trace(m, B["tv"])
            c0 = m.eval(BitVec("c0", 32), model_completion=True).as_long()
            worst, log = c22.replay_history(code, maps, e, c0, g, True, acts)
            res["replayed"] += 1
            if not any("TX-of-active-frame" in l for l in log):
                res["errors"].append(f"{name}: counterexample did not "
                                     "reproduce on the concrete interpreter")
                continue
            res["violations"].append(dict(
                signature="C21|history|stale outputs returned to the bus",
                what=f"{name} fails from counter {c0}: " + " ".join(log),
                witness=dict(counter=c0, group=g, actions=acts,
                             replay_log=log), replay=dict(kind="history")))
        r, _ = q.check(*B["cons"], UGE(B["deliveries"], 3))
        res["vacuity"].append((f"group {g}: histories with >= 3 deliveries "
                               "exist", r == "sat"))


def main(tier, replay_file=None):
    ck = common.Check(
        "C21", tier, "model_checking", FUNCTIONS,
        bounds=dict(layouts=[l[0] for l in LAYOUTS],
                    frame="every byte and the length (0..1600) symbolic; "
                          "returned working counters symbolic (16 bit)",
                    map="wkc_errors and all other map bytes symbolic",
                    histories="composition argument: C22 shows (all "
                              "histories to its depth) which passes run the "
                              "group program; here every single pass is "
                              "characterised for all inputs",
                    outside="layouts with more than 3 write datagrams; device "
                            "programs (C19/C26)"),
        stubs=["map_lookup_elem array model", "xdp_md context"],
        assumptions=["sterile() is run concretely on the enumerated layouts "
                     "(index/ethertype samples) and parsed by an independent "
                     "frame parser; symbolic sizes are covered by C11"])
    q = common.Q()
    res = dict(obligations=0, discharged=0, undecided=0, programs=0,
               replayed=0, states=0, transitions=0, samples=[], violations=[],
               errors=[], undecided_list=[], vacuity=[])
    layouts = LAYOUTS
    if replay_file:
        import json
        rp = json.load(open(replay_file))["replay"]
        if "layout" in rp:
            layouts = [(rp["layout"][0], [tuple(x) for x in rp["layout"][1]])]
    for lay in layouts:
        try:
            check_layout(lay, q, res)
            res["states"] += 1
            res["transitions"] += 2
        except EngineError as ex:
            res["errors"].append(f"{lay[0]}: engine: {ex}")
    wa = dispatcher_composition(q, res)
    try:
        q2 = common.Q(rlimit=400_000_000, timeout_ms=600_000, fallback=False)
        dispatcher_histories(q2, res, 14 if tier == "quick" else 24)
        res["queries"] = res.get("queries", 0) + q2.queries
        res["solver_s"] = res.get("solver_s", 0.0) + q2.solver_s
    except EngineError as ex:
        res["errors"].append(f"dispatcher histories: engine: {ex}")
    if wa:
        ck.assumptions.append("HARNESS WORKAROUND in force for the dispatcher "
                              "part (see C22): save_registers ownership")
    res["queries"] = res.get("queries", 0) + q.queries
    res["solver_s"] = res.get("solver_s", 0.0) + q.solver_s
    ck.add(res)
    return ck.finish()
