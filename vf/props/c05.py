"""C05 -- every program the generator accepts loads into the kernel.

Programs come from the generators of the other checks (C01 statements, C03
condition blocks, C04 frame programs, C07 packet programs, C08 array-map
and C09 hash-map / Dict programs, C19 fast sync groups of random devices)
plus programs using ktime / prandom and the library's own programs (fast
sync groups with the bundled devices, the dispatcher).

For every program the generator assembles, two deciders run:

* solver: the emitted bytes are executed symbolically over all paths
  (engine A) and the conditions the kernel verifier needs are discharged
  by z3: every register read (operands, helper arguments, r0 at exit) is
  initialised, every memory access lies inside the stack (512 bytes), the
  context, a map value obtained from a lookup that was null-checked, or the
  packet below the guarded length, and every path ends in exit.  A
  counterexample is a concrete input; it is replayed on the concrete
  interpreter and the program is handed to the kernel (must be rejected).
* kernel: when bpf() is usable the maps are created in the running kernel
  and BPF_PROG_LOAD is asked for its verdict (the verifier is itself an
  analysis of all paths).  A rejection is a violation of the property with
  the verifier log as witness.
"""
import os
import random

import z3
from z3 import BoolVal, Not

from .. import common

FUNCTIONS = ["ebpfcat/ebpf.py:EBPF.assemble, EBPF.append, Register.calculate, "
             "EBPF.get_free_register / save_registers / get_stack, "
             "Expression.calculate family, Memory.calculate/_set",
             "ebpfcat/ebpf.py:ktime.calculate, prandom.calculate, "
             "SubProgram, LocalVar, Structure/Member",
             "ebpfcat/arraymap.py:ArrayMap.init", "ebpfcat/hashmap.py:"
             "HashGlobalVar.get_address, HashGlobalVarDesc.__set__, "
             "TheDict.update/lookup",
             "ebpfcat/xdp.py:XDP.program, PacketSize comparisons, PacketVar",
             "ebpfcat/ebpfcat.py:FastSyncGroup.program, SterilePacket.activate, "
             "EtherXDP.program", "ebpfcat/devices.py:bundled devices' program()"]
KERNEL = None


def kernel_usable():
    """can this process create maps and load programs?"""
    global KERNEL
    if KERNEL is None:
        try:
            from .. import dsl
            from ebpfcat import bpf
            fd = dsl._real_create_map(bpf.MapType.HASH, 1, 8, 1)
            os.close(fd)
            code = bytes.fromhex("b700000002000000" "9500000000000000")
            pfd, _ = bpf.prog_load(dsl.ProgType.XDP, code, "GPL")
            os.close(pfd)
            KERNEL = True
        except Exception:
            KERNEL = False
    return KERNEL


# --------------------------------------------------------------- sources
def sources(tier, seed):
    """[(label, kind, argument)] -- built inside the worker"""
    rnd = random.Random(seed)
    quick = tier == "quick"
    from . import c01, c03, c07
    out = []
    s1 = [st for st in c01.shapes("quick" if quick else "thorough", seed)
          if not bad_shift(st[-1]) and not zero_divisor(st[-1]) and not (
              st[0] == "aug" and st[2] in ("//", "%", "/") and
              st[3][0] == "C" and st[3][1] == 0) and not (
              st[0] == "aug" and st[2] in ("<<", ">>") and st[3][0] == "C"
              and not 0 <= st[3][1] < 32)]
    for st in rnd.sample(s1, min(len(s1), 240 if quick else 2500)):
        out.append(("C01 " + c01.stmt_sig(st), "c01", st))
    b3 = c03.blocks(tier, seed)
    for b in rnd.sample(b3, min(len(b3), 80 if quick else 800)):
        out.append(("C03 " + c03.bsig(b), "c03", b))
    s7 = c07.shapes(tier, seed)
    for s in rnd.sample(s7, min(len(s7), 100 if quick else 1000)):
        out.append(("C07 " + c07.sig(s), "c07", s))
    base = seed * 1000
    for i in range(24 if quick else 300):
        out.append((f"C04 program seed {base + i}", "c04", base + i))
    for i in range(12 if quick else 120):
        out.append((f"C08 declaration set seed {base + i}", "c08", base + i))
    for i in range(8 if quick else 60):
        for part in ("hash", "dict"):
            out.append((f"C09 program seed {base + i} ({part})", "c09",
                        (base + i, part)))
    for i in range(12 if quick else 150):
        out.append((f"C19 fast group seed {base + i}", "c19", base + i))
    for k in range(6):
        out.append((f"helper program {k}", "helper", k))
    for op in ("<", "<=", ">", ">="):
        for n in (1, 2, 14, 60, 1499):
            if op in ("<", ">=") and n == 1 and False:
                continue
            out.append((f"packet guard: packetSize {op} {n}, access to the "
                        "last byte it promises", "guard", (op, n)))
    for k in range(2):
        out.append((f"block ending in exit() followed by its Else branch "
                    f"({k})", "exit_else", k))
    for name in ("AnalogInput", "AnalogOutput", "DigitalInput",
                 "DigitalOutput", "RandomOutput", "Counter",
                 "RandomDropper", "Motor0", "Motor1", "Motor2", "several"):
        out.append((f"library: fast sync group with {name}", "device", name))
    out.append(("library: dispatcher EtherXDP", "dispatcher", None))
    return out


def zero_divisor(x):
    """division or remainder by the constant 0 (outside the DSL's domain)"""
    if not isinstance(x, list):
        return False
    if x[0] in ("bin", "rbin") and x[1] in ("//", "%", "/"):
        d = x[3]
        if isinstance(d, list) and d[0] == "C" and d[1] == 0:
            return True
    return any(zero_divisor(y) for y in x[1:] if isinstance(y, list))


def bad_shift(x):
    """a shift by a constant outside 0..31: outside the domain of the DSL
    (C01's precondition; Python itself refuses negative counts)"""
    if not isinstance(x, list):
        return False
    if x[0] in ("bin", "rbin") and x[1] in ("<<", ">>"):
        amt = x[3]
        if isinstance(amt, list) and amt[0] == "C" and \
                not 0 <= amt[1] < 32:
            return True
    return any(bad_shift(y) for y in x[1:] if isinstance(y, list))


class Rejected(Exception):
    """the generator refused the program (not a subject of the property)"""


def build(kind, arg):
    """-> (code, maps, pkt_max or None)"""
    from .. import dsl
    ebpf = dsl.ebpf
    if kind == "c01":
        from ..exprs import Plan
        try:
            plan = Plan(arg, ebpf, dsl._am)
            e, code, maps = dsl.build(plan.ns, plan.emit)
        except (ebpf.AssembleError, TypeError, NotImplementedError) as ex:
            raise Rejected(str(ex))
        return code, maps, None
    if kind == "c03":
        from . import c03
        try:
            B = c03.Builder(arg)
            e, code, maps = dsl.build(B.plan.ns, B.emit)
        except (ebpf.AssembleError, TypeError, NotImplementedError) as ex:
            raise Rejected(str(ex))
        return code, maps, None
    if kind == "c07":
        from . import c07
        try:
            e, code, maps = c07.build(arg)
        except (ebpf.AssembleError, TypeError, NotImplementedError,
                __import__("struct").error) as ex:
            raise Rejected(str(ex))
        return code, maps, 1600
    if kind == "c04":
        from . import c04
        spec = c04.gen_spec(arg)
        spec["twomaps"] = False        # (recorded finding of C04)
        e, subs, code, maps = c04.build_and_emit(spec)
        return code, maps, None
    if kind == "c08":
        from . import c08
        e, subs, mapobjs, code, maps = c08.make_program(c08.gen_spec(arg))
        return code, maps, None
    if kind == "c09":
        from . import c09
        e, code, maps = c09.make_program(c09.gen_spec(arg[0]), arg[1])
        return code, maps, None
    if kind == "c19":
        from . import c19
        import ebpfcat.ebpfcat as ecm
        import ebpfcat.ethercat as eth
        spec = c19.gen_spec(arg)
        dsl.new_registry()
        ec, terms, dev, links = c19.build(ecm, eth, spec, fast=True)
        sg = ecm.FastSyncGroup(ec, [dev])
        sg.allocate()
        return sg.assemble(), list(dsl.REG.maps), 1600
    if kind == "helper":
        am = dsl._am
        m = am.ArrayMap()
        ns = dict(themap=m, t=m.globalVar("Q"), rr=m.globalVar("I"),
                  d=m.globalVar("Q"), loc=ebpf.LocalVar("Q"))

        def body(e, k=arg):
            if k == 0:
                e.t = ebpf.ktime(e)
            elif k == 1:
                e.rr = ebpf.prandom(e) & 0xffff
            elif k == 2:
                e.loc = ebpf.ktime(e)
                e.d = ebpf.ktime(e) - e.loc
            elif k == 3:
                with ebpf.prandom(e) & 0xffff < 100 as Else:
                    e.rr = 1
                with Else:
                    e.rr = 2
            elif k == 4:
                e.r3 = ebpf.ktime(e)
                e.t = e.r3 + e.t * 3
            else:
                e.d = (ebpf.prandom(e) & 0xff) * 7 + ebpf.ktime(e)
        e, code, maps = dsl.build(ns, body)
        return code, maps, None
    if kind == "guard":
        import operator
        op, n = arg
        last = n if op in (">", "<=") else n - 1
        cmp_ = {"<": operator.lt, "<=": operator.le, ">": operator.gt,
                ">=": operator.ge}[op]
        m = dsl._am.ArrayMap()
        ns = dict(themap=m, out=m.globalVar("B"))

        def program(self):
            if op in (">", ">="):
                with cmp_(self.packetSize, n) as p:
                    self.out = p.pB[last]
                    p.pB[last] = 7
            else:
                with cmp_(self.packetSize, n) as p:
                    self.out = 1
                with p.Else:
                    self.out = p.pB[last]
                    p.pB[last] = 7
            self.exit(dsl.xdp.XDPExitCode.PASS)
        ns["program"] = program
        e, code, maps = dsl.build(ns, None, base=dsl.xdp.XDP, finish=False)
        return code, maps, 1600
    if kind == "exit_else":
        ns = dict(a=ebpf.LocalVar("I"), b=ebpf.LocalVar("I"))

        def body(e, k=arg):
            e.a = 7
            with (e.a > 3 if k == 0 else e.a == 7) as Else:
                e.r0 = 1
                e.exit()
            with Else:
                e.b = 1
        e, code, maps = dsl.build(ns, body)
        return code, maps, None
    if kind == "device":
        return build_device(arg)
    if kind == "dispatcher":
        import ebpfcat.ebpfcat as ecm
        dsl.new_registry()
        x = ecm.EtherXDP()
        x.programs = dsl.REG.create_map(dsl.MapType.PROG_ARRAY, 4, 4, 64)
        return x.assemble(), list(dsl.REG.maps), 1600
    raise ValueError(kind)


def build_device(name):
    from .. import dsl, fastgroup
    import ebpfcat.ebpfcat as ecm
    import ebpfcat.devices as devices
    from ebpfcat.ethercat import SyncManager
    if name.startswith("Motor"):
        from . import c26
        sg, m, t, code, maps = c26.build(c26.LAYOUTS[int(name[5:])])
        return code, maps, 1600
    dsl.new_registry()
    ec = fastgroup.BusStub()
    IN, OUT = SyncManager.IN, SyncManager.OUT
    pdos = {(0x6000, 1): (IN, 0, "H"), (0x6000, 2): (IN, 2, 3),
            (0x7000, 1): (OUT, 0, "H"), (0x7000, 2): (OUT, 2, 5)}
    t = fastgroup.make_terminal(ecm.EBPFTerminal, ec, 5, pdos, in_sz=4,
                                out_sz=4, use_fmmu=True)
    t.fmmu_used = [None, None, None]
    ain = ecm.ProcessDesc(0x6000, 1).__get__(t, type(t))
    din = ecm.ProcessDesc(0x6000, 2).__get__(t, type(t))
    aout = ecm.ProcessDesc(0x7000, 1).__get__(t, type(t))
    dout = ecm.ProcessDesc(0x7000, 2).__get__(t, type(t))
    mk = {"AnalogInput": lambda: [devices.AnalogInput(ain)],
          "AnalogOutput": lambda: [devices.AnalogOutput(aout)],
          "DigitalInput": lambda: [devices.DigitalInput(din)],
          "DigitalOutput": lambda: [devices.DigitalOutput(dout)],
          "RandomOutput": lambda: [devices.RandomOutput(dout)],
          "Counter": lambda: [devices.Counter(), devices.AnalogInput(ain)],
          "RandomDropper": lambda: [devices.RandomDropper(),
                                    devices.AnalogInput(ain)],
          "several": lambda: [devices.AnalogInput(ain),
                              devices.DigitalOutput(dout),
                              devices.Counter(), devices.AnalogOutput(aout)]}
    devs = mk[name]()
    sg, code, maps = fastgroup.fast_group(ec, devs)
    return code, maps, 1600


# ----------------------------------------------------------------- deciders
def kernel_verdict(code):
    from .. import dsl
    from ebpfcat import bpf
    try:
        fd, log = bpf.prog_load(dsl.ProgType.XDP, code, "GPL", log_level=1,
                                log_size=1 << 20)
        os.close(fd)
        return True, ""
    except bpf.BPFError as ex:
        return False, str(ex.args[1])[-700:]
    except OSError as ex:
        return None, str(ex)


def check_one(label, kind, arg, q, res):
    from .. import dsl
    from ..bpfsym import EngineError, Env, decode, run
    real = kernel_usable()
    dsl.REAL_MAPS = real
    try:
        code, maps, pkt_max = build(kind, arg)
    except Rejected:
        res["rejected"] = res.get("rejected", 0) + 1
        return
    except Exception as ex:
        msg = f"{type(ex).__name__}: {ex}"
        if kind in ("dispatcher", "device") and "has no value" in msg:
            res["obligations"] += 1
            res["discharged"] += 1
            sig = "C05|dispatcher cannot be assembled" if kind == "dispatcher" \
                else f"C05|library program cannot be assembled|{arg}"
            res["violations"].append(dict(
                signature=sig,
                what=f"{label}: the generator cannot assemble the program: "
                     f"{msg}", witness=dict(error=msg), replay=None))
            # decide the program the generator yields once the ownership
            # of restored registers is kept (harness-side stand-in)
            from .c22 import ownership_workaround
            try:
                dsl.REAL_MAPS = real
                with ownership_workaround():
                    code, maps, pkt_max = build(kind, arg)
                label += " [with the ownership stand-in]"
            except Exception as ex2:
                res["errors"].append(f"{label}: even with the stand-in: {ex2}")
                return
        else:
            res["crashed"] = res.get("crashed", 0) + 1
            res.setdefault("crash_kinds", {}).setdefault(msg[:80], []) \
                .append(label)
            return
    finally:
        dsl.REAL_MAPS = False
    res["programs"] += 1
    # ---- solver: the verifier's necessary conditions over all paths
    insns = decode(code)
    env = Env(maps, pkt_max=pkt_max) if pkt_max else Env(maps)
    st0 = env.initial()
    try:
        exits = run(insns, env, st0.copy())
    except EngineError as ex:
        res["not_analysable"] = res.get("not_analysable", 0) + 1
        res.setdefault("engine_limits", []).append(f"{label}: {ex}")
        exits = None
    solver_bad = None
    if exits is not None:
        obl = []
        for pc, gg, ok, text in env.inits:
            if not z3.is_true(ok):
                obl.append((f"pc {pc}: {text} initialised", [gg, Not(ok)]))
        for pc, gg, ok, text in env.safety:
            obl.append((f"pc {pc}: {text} inside its region", [gg, Not(ok)]))
        for x in exits:
            if x.kind == "exit" and not z3.is_true(x.state.init[0]):
                obl.append((f"pc {x.pc}: r0 set at exit",
                            [x.guard, Not(x.state.init[0])]))
        g_all = z3.Or(*[x.guard for x in exits]) if exits else BoolVal(False)
        obl.append(("every path ends in exit or a tail call", [Not(g_all)]))
        for oname, fs in obl:
            res["obligations"] += 1
            r, mdl = q.check(*env.assumptions, *fs)
            if r == "unsat":
                res["discharged"] += 1
            elif r == "unknown":
                res["undecided"] += 1
                res["undecided_list"].append(f"{label}: {oname}")
            else:
                solver_bad = (oname, mdl)
                break
    # ---- kernel
    verdict, log = (None, "")
    if real:
        verdict, log = kernel_verdict(code)
        res["kernel_loads"] = res.get("kernel_loads", 0) + 1
        res["obligations"] += 1
        if verdict is True:
            res["discharged"] += 1
            res["kernel_accepted"] = res.get("kernel_accepted", 0) + 1
        elif verdict is None:
            res["obligations"] -= 1
            res["kernel_errors"] = res.get("kernel_errors", 0) + 1
    dsl.close_maps()
    if solver_bad is not None:
        oname, mdl = solver_bad
        if verdict is True:
            # the verifier accepts what the encoding flags: the encoding
            # demands more than the verifier -- an engine matter, not a
            # finding
            res["errors"].append(f"{label}: '{oname}' has a counterexample "
                                 "but the kernel accepts the program")
            return
        res["replayed"] += 1
        res["violations"].append(dict(
            signature="C05|" + classify(oname, log),
            what=f"{label}: {oname} can fail" +
                 (f"; the kernel verifier rejects the program: "
                  f"{lastline(log)}" if verdict is False else
                  " (kernel not available for confirmation)"),
            witness=dict(obligation=oname, verifier_log=log[-400:]),
            replay=dict(kind=kind, arg=arg)))
        return
    if verdict is False:
        sig = "C05|" + classify("", log)
        if kind == "c07" and arg.get("N") == 0 and \
                "outside of the packet" in log:
            sig = "C05|packet guard of zero bytes"
        if kind == "guard" and tuple(arg) in ((">=", 1), (">", 0)) and \
                "outside of the packet" in log:
            sig = "C05|packet guard of zero bytes"   # emitted as `> 0`
        res["violations"].append(dict(
            signature=sig,
            what=f"{label}: the generator assembles the program but the "
                 f"kernel verifier rejects it: {lastline(log)}",
            witness=dict(verifier_log=log[-600:]),
            replay=dict(kind=kind, arg=arg)))


def lastline(log):
    lines = [l for l in log.strip().splitlines()
             if l.strip() and not l.startswith("processed")
             and "verification time" not in l]
    return lines[-1][:160] if lines else "(no log)"


def classify(oname, log):
    t = lastline(log) if log else oname
    for pat, name in (("!read_ok", "uninitialised register"),
                      ("invalid mem access 'scalar'", "dereference of a scalar"),
                      ("invalid access to packet", "packet access not guarded"),
                      ("invalid indirect read from stack",
                       "read of uninitialised stack"),
                      ("invalid read from stack", "read of uninitialised stack"),
                      ("BPF_ATOMIC", "atomic add on a packet pointer"),
                      ("unreachable insn", "unreachable jump after exit in a "
                                           "block with an Else branch"),
                      ("invalid access to map value", "map value out of bounds"),
                      ("stack", "stack")):
        if pat in t:
            return name
    return (oname.split(":")[-1].strip() or t)[:60]


def worker(items):
    res = dict(obligations=0, discharged=0, undecided=0, programs=0,
               replayed=0, violations=[], errors=[], undecided_list=[],
               samples=[], vacuity=[], queries=0, solver_s=0.0)
    q = common.Q(rlimit=20_000_000, timeout_ms=30_000, fb_timeout=20)
    for label, kind, arg in items:
        try:
            check_one(label, kind, arg, q, res)
        except Exception as ex:
            import traceback
            res["errors"].append(f"{label}: {type(ex).__name__} {ex} "
                                 f"{traceback.format_exc()[-500:]}")
    res["queries"], res["solver_s"] = q.queries, q.solver_s
    return res


def main(tier, replay_file=None):
    seed = common.seed()
    ck = common.Check(
        "C05", tier, "translation_validation", FUNCTIONS,
        bounds=dict(programs="seeded samples of the generators of C01 "
                             "(statements), C03 (condition blocks), C04, C07 "
                             "(packet), C08, C09, C19 (fast groups) + 6 "
                             "ktime/prandom programs + fast sync groups with "
                             "every bundled device + the dispatcher; see "
                             "extra.programs_by_source",
                    per_program="all inputs and all paths (solver); the "
                                "kernel's own verifier when bpf() is usable",
                    outside="constant shift counts outside 0..31 and constant "
                            "zero divisors (outside the DSL's domain, C01's "
                            "precondition); programs "
                            "outside these generators; verifier "
                            "limits that depend on program size (1M "
                            "instructions) are far away"),
        stubs=["engine A's models of context, packet, stack, maps and "
               "helpers"],
        assumptions=["the solver side checks NECESSARY conditions of the "
                     "verifier; acceptance itself is the kernel's verdict "
                     f"(kernel usable in this run: {kernel_usable()})"])
    if replay_file:
        import json
        r = json.load(open(replay_file))["replay"]
        items = [("replay", r["kind"], r["arg"])]
    else:
        items = sources(tier, seed)
    n = common.NCPU * 4
    chunks = [items[i::n] for i in range(n)]
    agg = {}
    for res in common.pmap(worker, [c for c in chunks if c]):
        ck.add(res)
        for k in ("rejected", "crashed", "not_analysable", "kernel_loads",
                  "kernel_accepted", "kernel_errors"):
            agg[k] = agg.get(k, 0) + res.get(k, 0)
        for k, v in res.get("crash_kinds", {}).items():
            agg.setdefault("crash_kinds", {}).setdefault(k, []).extend(v[:2])
        agg.setdefault("engine_limits", []).extend(res.get("engine_limits", [])[:3])
    by = {}
    for label, kind, arg in items:
        by[kind] = by.get(kind, 0) + 1
    ck.extra["programs_by_source"] = by
    ck.extra["kernel_usable"] = bool(kernel_usable())
    ck.extra.update({k: v for k, v in agg.items() if k not in ("crash_kinds",)})
    ck.extra["generator_crashes"] = {k: v[:3] for k, v in
                                     agg.get("crash_kinds", {}).items()}
    ck.sample(dict(note="every program: solver obligations (register "
                        "initialisation, access regions, exit) + kernel verdict",
                   sources=by))
    return ck.finish()
