"""C13 -- datagram field encoding and decoding round-trip.

The real coroutine EtherCat.roundtrip is executed symbolically (engine B) on
a deterministic event loop: field values, raw data length (0..8/16) and
content, and the response bytes are symbolic.  The payload handed to the send
queue and the decoded return value are compared with the struct reference.
"""
import asyncio
import itertools
import random

from .. import common, pyrun, pysym
from ..pysym import E

FUNCTIONS = ["ebpfcat/ethercat.py:EtherCat.roundtrip",
             "ebpfcat/ethercat.py:EtherCat.__init__"]
FMTS = ["B", "H", "I", "Q", "b", "h", "i", "q", "4s", "2xH", "H4xI", "HB"]
NVALS = {"4s": 1, "2xH": 1, "H4xI": 2, "HB": 2}
RANGE = {"B": (0, 255, 8, False), "H": (0, 65535, 16, False),
         "I": (0, 2**32 - 1, 32, False), "Q": (0, 2**63 - 1, 64, False),
         "b": (-128, 127, 8, True), "h": (-32768, 32767, 16, True),
         "i": (-2**31, 2**31 - 1, 32, True), "q": (None, None, 64, True)}


def shapes(tier, seed):
    rnd = random.Random(seed)
    out = []
    datas = ["none", "count0", "count3", "bytes", "empty", "symcount"]
    # one format, with / without value, all data kinds
    for f in FMTS:
        for d in datas:
            out.append(dict(fmts=[f], vals=[True], data=d))
            out.append(dict(fmts=[f], vals=[False], data=d))
    out.append(dict(fmts=[], vals=[], data="bytes"))
    out.append(dict(fmts=[], vals=[], data="empty"))
    out.append(dict(fmts=[], vals=[], data="count3"))
    out.append(dict(fmts=[], vals=[], data="none"))
    n = 60 if tier == "quick" else 600
    for _ in range(n):
        k = rnd.choice([2, 2, 3])
        fs = [rnd.choice(FMTS) for _ in range(k)]
        vals = [True] * (k - 1) + [rnd.random() < 0.6]
        out.append(dict(fmts=fs, vals=vals, data=rnd.choice(datas)))
    return out


def sig(s):
    a = ",".join(f + ("=v" if v else "") for f, v in zip(s["fmts"], s["vals"]))
    return f"roundtrip({a}; data={s['data']})"


def make_harness(s, maxraw):
    def harness():
        eth = pysym.module("ethercat")
        sym = not E.concrete
        args, vals_in = [], []
        nv = 0
        for f, hasv in zip(s["fmts"], s["vals"]):
            args.append(f)
            if not hasv:
                continue
            for c in (f if f not in ("4s",) else ["4s"]):
                if c in RANGE:
                    lo, hi, bits, sg = RANGE[c]
                    v = E.int(f"v{nv}", lo, hi, bits=bits, signed=sg)
                elif c == "4s":
                    v = E.bytes(f"v{nv}", 4)
                else:
                    continue
                nv += 1
                args.append(v)
                vals_in.append((c, v))
        kind = s["data"]
        if kind == "none":
            data = None
        elif kind == "count0":
            data = 0
        elif kind == "count3":
            data = 3
        elif kind == "symcount":
            data = E.int("count", 0, maxraw)
        elif kind == "empty":
            data = b""
        else:
            n = E.int("rawlen", 0, maxraw)
            data = E.bytes("raw", n)
        # reference encoding ------------------------------------------------
        # formats that carry values (all but a trailing value-less one)
        vfmt = "<" + "".join(f for f, hv in zip(s["fmts"], s["vals"]) if hv)
        full = "<" + "".join(s["fmts"])
        tail0 = pysym.sym_calcsize(full) - pysym.sym_calcsize(vfmt)
        exp = pysym.sym_pack(vfmt, *[v for _, v in vals_in]) + bytes(tail0)
        if data is None:
            pass
        elif isinstance(data, pysym.SInt):
            exp = exp + pysym.sym_bytes(data)
        elif isinstance(data, int):
            exp = exp + bytes(data)
        else:
            exp = exp + data
        fixed = pysym.sym_calcsize(full)

        async def main():
            ec = eth.EtherCat("verif0")
            ec.send_queue = asyncio.Queue()
            task = asyncio.ensure_future(ec.roundtrip(
                eth.ECCmd.FPRD, 7, 0x120, *args, data=data, idx=5))
            for _ in range(3):
                await asyncio.sleep(0)
                if not ec.send_queue.empty() or task.done():
                    break
            if task.done():
                return task.result(), None
            cmd, out, idx, pos, off, fut = ec.send_queue.get_nowait()
            E.prove(cmd is eth.ECCmd.FPRD and idx == 5 and pos == 7
                    and off == 0x120, "command, index and address passed on")
            E.prove(pysym.sym_len(out) == pysym.sym_len(exp), "payload length")
            E.prove(_eq(out, exp), "payload = little-endian struct encoding + "
                                   "zeros for the read-only format + raw data")
            resp = E.bytes("resp", pysym.sym_len(out))
            fut.set_result(resp)
            return await task, resp
        ret, resp = pysym.run_async(main)
        if resp is None:
            E.fail("roundtrip returned without sending")
            return
        # reference decoding -----------------------------------------------
        if s["fmts"] and data is not None:
            want = pysym.sym_unpack(full, resp[:fixed]) + (resp[fixed:],)
        elif data is not None:
            want = resp
        else:
            want = pysym.sym_unpack(full, resp)
        if isinstance(want, tuple):
            E.prove(isinstance(ret, tuple) and len(ret) == len(want),
                    "number of returned fields")
            if isinstance(ret, tuple) and len(ret) == len(want):
                for i, (a, b) in enumerate(zip(ret, want)):
                    E.prove(_eq(a, b), f"returned field {i} = response "
                                       "decoded at the same offset")
        else:
            E.prove(_eq(ret, want), "returned raw bytes = response")
    return harness


def _eq(a, b):
    if isinstance(a, (pysym.SBytes, pysym.SByteArray)) or \
            isinstance(b, (pysym.SBytes, pysym.SByteArray)):
        return pysym.SBytes.of(a) == b
    return a == b


def worker(args):
    n, s, maxraw = args
    res = pyrun.new_res()
    try:
        st = pyrun.run("C13", sig(s), make_harness(s, maxraw), res,
                       sig=lambda w: w.split(":")[0][:80])
        if n % 40 == 0:
            res["samples"].append(dict(shape=sig(s), **{
                k: st[k] for k in ("paths", "decisions", "obligations",
                                   "queries")}))
    except Exception as ex:
        import traceback
        res["errors"].append(f"{sig(s)}: harness exception {ex} "
                             f"{traceback.format_exc()[-300:]}")
    return res


def main(tier, replay_file=None):
    maxraw = 8 if tier == "quick" else 16
    ck = common.Check(
        "C13", tier, "model_checking", FUNCTIONS,
        bounds=dict(formats=FMTS, format_strings="up to 3 per call",
                    values="all values of every field (full width)",
                    raw_data=f"bytes of symbolic length 0..{maxraw} and "
                             "content, empty bytes, zero/positive/symbolic "
                             "counts, or None",
                    response="every byte symbolic",
                    outside="more than 3 format strings; raw data longer "
                            f"than {maxraw} bytes"),
        stubs=["send queue read by the harness instead of sendloop",
               "struct model (vf/pysym.py) in place of the C struct module; "
               "replay uses the real struct module"],
        assumptions=["paths = symbolic states explored; decisions = transitions"])
    sh = shapes(tier, common.seed())
    for res in common.pmap(worker, [(i, s, maxraw) for i, s in enumerate(sh)]):
        ck.add(res)
    ck.extra["shapes"] = len(sh)
    return ck.finish()
