"""C15 -- mailbox exchanges with a terminal are serialised and counted.

In-process: several asyncio tasks use the real Terminal.sdo_read / sdo_write
(with the real MailboxLock) on one terminal against the CoE server model.
Cross-process: 2-3 simulated processes (threads running the real LockFile /
ParallelMailboxLock code over a POSIX file model) with a scheduling point at
every system call; which process runs next is an engine decision (bounded
preemptions), including the window between creating and initialising the
shared lock file.
"""
import asyncio

from .. import busmodel, coemodel, common, procsim, pyrun, pysym
from ..pysym import E, land

FUNCTIONS = ["ebpfcat/lock.py:MailboxLock.next_counter",
             "ebpfcat/lock.py:ParallelMailboxLock.__aenter__/__aexit__/next_counter",
             "ebpfcat/lock.py:LockFile.__init__",
             "ebpfcat/ethercat.py:Terminal.sdo_read/sdo_write/mbx_send/mbx_recv "
             "(mbx_lock held around exchanges)"]


SIZES = [2, 30, 50]          # expedited / normal / segmented transfer


def inprocess_harness(ntasks):
    def harness():
        eth = pysym.module("ethercat")
        model = coemodel.CoETerminal(48, 48, max_delay=3, delay_msgs=2)
        bus = busmodel.Bus(eth, [model])
        vals = {}
        for i in range(ntasks):
            key = (0x8000 + 0x10 * i, i + 1)
            n = SIZES[E.choose(len(SIZES), f"size class of object {i}")]
            vals[key] = E.bytes(f"val{i}", n)
        kinds = [bool(E.bool(f"task{i}_writes")) for i in range(ntasks)]
        out = {}

        async def main():
            ec = busmodel.make_ec(eth)
            t = eth.Terminal(ec)
            t.position, t.name = 1000, "coe"
            t.mbx_lock = ec.get_mbx_lock(1000)
            t.mbx_out_off, t.mbx_out_sz = model.out_off, 48
            t.mbx_in_off, t.mbx_in_sz = model.in_off, 48
            for i, (key, v) in enumerate(vals.items()):
                if kinds[i]:
                    model.accept.append(key)
                else:
                    model.objects[key] = v

            async def user(i, key):
                if kinds[i]:
                    return await t.sdo_write(vals[key], key[0], key[1])
                return await t.sdo_read(key[0], key[1])

            async def body():
                return await asyncio.gather(
                    *[user(i, k) for i, k in enumerate(vals)],
                    return_exceptions=True)
            out["res"] = await busmodel.with_bus(ec, bus, body())
        pysym.run_async(main, max_steps=60000)
        for i, (key, v) in enumerate(vals.items()):
            r = out["res"][i]
            if isinstance(r, BaseException):
                E.fail(f"task {i}: {type(r).__name__}: {str(r)[:60]}")
            elif kinds[i]:
                E.prove(key in model.stored and pysym.bytes_equal(
                    model.stored[key], v), f"task {i}: its download arrives intact")
            else:
                E.prove(pysym.bytes_equal(r, v), f"task {i}: gets its own "
                                                 "object's value")
        cs = model.counters
        E.prove(all(b == a % 7 + 1 for a, b in zip(cs, cs[1:])) and
                all(1 <= c <= 7 for c in cs[1:]),
                f"mailbox counters of consecutive messages follow the cycle "
                f"1..7 without repeat or gap (saw {cs})")
        E.prove(not model.violations, f"the exchanges do not interleave "
                                      f"({model.violations[:2]})")
    return harness


def crossprocess_harness(nproc, rounds, preemptions, crash):
    def harness():
        lock = pysym.module("lock")
        undo = procsim.install(lock)
        sim = procsim.Sim(preemptions=preemptions, crash=crash)
        events = []
        c0 = None
        if E.choose(2, "lock file: absent / left by earlier runs"):
            c0 = E.int("stored_counter", 0, 7)
            sim.fs.files["/run/ebpf/verif0"] = [0, c0, 0, 0]
            sim.fs.inode["/run/ebpf/verif0"] = 99
        try:
            def actor(pid):
                def run(sh):
                    lf = lock.LockFile("/run/ebpf/verif0", 1000, 1004)
                    ml = lock.ParallelMailboxLock(lf, 1001)

                    async def main():
                        for r in range(rounds):
                            async with ml:
                                events.append((pid, "enter"))
                                c = ml.next_counter()
                                events.append((pid, "msg", c))
                                if r == 0 and pid == 0:
                                    c = ml.next_counter()
                                    events.append((pid, "msg", c))
                                events.append((pid, "exit"))
                    pysym.run_async(main, max_steps=4000)
                    return "ok"
                return run
            for pid in range(nproc):
                sim.spawn(pid, actor(pid))
            stuck = sim.run()
        finally:
            undo()
        E.prove(not stuck, f"no process is stuck ({stuck})")
        for pid, p in sim.procs.items():
            if p.get("crashed"):
                continue
            E.prove(p["exc"] is None,
                    f"process {pid} obtains a valid counter instead of failing"
                    + (f" ({type(p['exc']).__name__}: {str(p['exc'])[:50]})"
                       if p["exc"] is not None else ""))
        # exchanges do not interleave
        owner = None
        ok = True
        for ev in events:
            if ev[1] == "enter":
                ok = ok and owner is None
                owner = ev[0]
            elif ev[1] == "exit":
                ok = ok and owner == ev[0]
                owner = None
            else:
                ok = ok and owner == ev[0]
        if sim.crashed is None:
            E.prove(ok, f"exchanges of different processes never interleave "
                        f"({events[:12]})")
        msgs = [ev[2] for ev in events if ev[1] == "msg"]
        if sim.crashed is None and msgs:
            good = land(msgs[0] >= 0, msgs[0] <= 7)
            if c0 is not None:
                good = land(good, msgs[0] == c0)
            else:
                good = land(good, msgs[0] == 0)
            for a, b in zip(msgs, msgs[1:]):
                good = land(good, b == a % 7 + 1, b >= 1, b <= 7)
            E.prove(good, f"counters across all processes continue the stored "
                          f"counter and follow the cycle 1..7 without repeat "
                          f"or gap ({len(msgs)} messages)")
            final = sim.fs.files["/run/ebpf/verif0"]
            E.prove(land(len(final) == 4, final[1] == msgs[-1] % 7 + 1),
                    "the lock file stores the next counter")
    return harness


def worker(args):
    res = pyrun.new_res()
    if args[0] == "in":
        name = f"in-process: {args[1]} tasks share one terminal's mailbox"
        h = inprocess_harness(args[1])
    else:
        _, n, rounds, pre, crash = args
        name = (f"cross-process: {n} processes x {rounds} exchange(s), "
                f"<= {pre} preemptions" + (", one crash" if crash else ""))
        h = crossprocess_harness(n, rounds, pre, crash)
    try:
        st = pyrun.run("C15", name, h, res, maxtime=900, maxpaths=200000,
                       sig=lambda w: w.split("(")[0].strip()[:70])
        res["samples"].append(dict(harness=name, **{
            k: st[k] for k in ("paths", "aborted", "decisions", "obligations",
                               "queries", "wall")}))
    except Exception as ex:
        import traceback
        res["errors"].append(f"{name}: harness exception {ex} "
                             f"{traceback.format_exc()[-500:]}")
    return res


def main(tier, replay_file=None):
    ck = common.Check(
        "C15", tier, "model_checking", FUNCTIONS,
        bounds=dict(in_process="2 (thorough 3) tasks doing SDO uploads/"
                               "downloads (solver-chosen) of symbolic values "
                               "on one terminal",
                    cross_process="2 (3) processes x 1-2 exchanges, scheduling "
                                  "point at every system call, <= 2 (3) "
                                  "preemptions (thorough: 3 processes with 1), lock file absent or present "
                                  "with counter 0 / 5",
                    crash="thorough: one process may die at any system call",
                    outside="more processes / preemptions; NFS-like lock "
                            "semantics"),
        stubs=["POSIX file model with lockf byte-range locks (vf/procsim.py), "
               "one thread per simulated process, baton scheduling",
               "CoE server model for the in-process part"])
    items = [("in", 2), ("x", 2, 1, 2, False), ("x", 2, 2, 1, False)]
    if tier != "quick":
        items += [("in", 3), ("x", 3, 1, 1, False), ("x", 2, 2, 2, False),
                  ("x", 2, 1, 2, True)]
    for res in common.pmap(worker, items):
        ck.add(res)
    return ck.finish()
