"""C22 -- the dispatcher keeps fast groups running under loss and injection.

The real EtherXDP program is assembled and its bytes executed symbolically.
One-pass obligations quantify over the whole frame, its length, the counter
array and the random number.  History obligations are decided by bounded
model checking: the merged symbolic execution of the real bytecode is the
transition function of the abstract state (group counter word, <= 3 frames
in flight with their index byte); which action happens at each step
(deliver / lose / inject) is a solver variable.
"""
from contextlib import contextmanager

import z3
from z3 import (And, BitVec, BitVecVal, Bool, BoolVal, Concat, Extract, If,
                Implies, Not, Or, Select, Store, UGE, UGT, ULE, ULT, ZeroExt)

from .. import common, dsl
from ..bpfsym import (EngineError, Env, PKT, bv, decode, disasm, load, merge,
                      rload, rsel, run, store)
from ..bpfconc import Fault, Machine

FUNCTIONS = [
    "ebpfcat/ebpfcat.py:EtherXDP.program",
    "ebpfcat/xdp.py:XDP.program, PacketSize.__gt__, PacketVar",
    "ebpfcat/arraymap.py:ArrayMap.init/collect, ArrayGlobalVarDesc ('64I' "
    "counters, get_address)",
    "ebpfcat/ebpf.py:prandom.calculate, EBPF.save_registers/call/exit, "
    "comparison, AndOrComparison, Memory._set (XADD), SwitchEndian",
]
MAX_PROGS = 64


@contextmanager
def ownership_workaround():
    """harness-side stand-in for the recorded finding 'save_registers drops
    the ownership of the registers it restores': with it the dispatcher can
    be assembled at all.  Nothing else of the generator is touched."""
    E = dsl.ebpf.EBPF
    orig = E.save_registers

    @contextmanager
    def save_registers(self, registers):
        old = self.owners.copy()
        regs = set(registers)
        with orig(self, registers):
            yield
        self.owners |= old & regs
    E.save_registers = save_registers
    try:
        yield
    finally:
        E.save_registers = orig


def build_dispatcher():
    import ebpfcat.ebpfcat as ec
    dsl.new_registry()
    e = ec.EtherXDP()
    e.programs = dsl._create_map(dsl.MapType.PROG_ARRAY, 4, 4, ec.FastEtherCat.MAX_PROGS)
    code = e.assemble()
    return e, code, list(dsl.REG.maps)


def assemble_as_library(res):
    """-> (e, code, maps, workaround_used)"""
    try:
        e, code, maps = build_dispatcher()
        return e, code, maps, False
    except dsl.ebpf.AssembleError as ex:
        res["violations"].append(dict(
            signature="C22|dispatcher cannot be assembled",
            what=f"EtherXDP().assemble() raises AssembleError: {ex}",
            witness=dict(call="ebpfcat.ebpfcat.EtherXDP().assemble()",
                         error=str(ex)),
            replay=dict(kind="assemble")))
        res["replayed"] += 1
    with ownership_workaround():
        e, code, maps = build_dispatcher()
    return e, code, maps, True


class OnePass:
    def __init__(self, e, code, maps, prefix=""):
        self.e, self.code, self.maps = e, code, maps
        self.insns = decode(code)
        self.env = Env(maps, prefix=prefix, pkt_max=1600)
        self.st0 = self.env.initial()
        self.exits = run(self.insns, self.env, self.st0.copy())
        self.mem0 = self.st0.mem
        self.vmap = maps[0]
        self.cnt_off = e.__dict__["counters"]
        self.drop_off = e.__dict__["dropcounter"]

    def pk(self, mem, off, n=1):
        return load(mem, bv(PKT + off), n)

    def be16(self, mem, off):
        return Concat(Select(mem, bv(PKT + off)), Select(mem, bv(PKT + off + 1)))


def one_pass_obligations(op, q, res):
    env, mem0, exits = op.env, op.mem0, op.exits
    L = env.pkt_len
    base = list(env.assumptions)
    kinds = {}
    for x in exits:
        kinds.setdefault(x.kind, []).append(x)
    allg = Or(*[x.guard for x in exits])
    ethertype = op.be16(mem0, 12)
    cmd0 = op.pk(mem0, 16)
    grp = op.pk(mem0, 18, 4)
    is_ec = And(UGT(L, bv(30)), ethertype == bv(0x88A4, 16), cmd0 == bv(0, 8))
    j = BitVec("j", 64)
    m_any = BitVec("m", 64)
    obl = []
    obl.append(("the exits partition all inputs (some exit is always taken)",
                [Not(allg)]))
    for i, a in enumerate(exits):
        for b in exits[:i]:
            obl.append((f"exits at pc {a.pc} and pc {b.pc} are disjoint",
                        [a.guard, b.guard]))
    for x in kinds.get("exit", []):
        r0 = x.state.regs[0]
        obl.append((f"exit at pc {x.pc}: never DROP/ABORTED/REDIRECT (rate 0)",
                    [x.guard, And(r0 != bv(2), r0 != bv(3))]))
        changed_pkt = And(ULT(j, L), Select(x.state.mem, bv(PKT) + j)
                          != Select(mem0, bv(PKT) + j))
        vm = op.vmap
        changed_map = And(ULT(m_any, bv(vm.area)),
                          Select(x.state.mem, bv(vm.base) + m_any)
                          != Select(mem0, bv(vm.base) + m_any))
        obl.append((f"exit at pc {x.pc}: a frame that is not an EtherCAT "
                    "frame starting with the identification datagram passes "
                    "(XDP_PASS) unchanged, counters unchanged",
                    [x.guard, Not(is_ec),
                     Or(r0 != bv(2), changed_pkt, changed_map)]))
        # ethertype handed to user space comes from the identification dgram
        obl.append((f"exit at pc {x.pc}: an identification frame handed to "
                    "user space carries the ethertype of its identification "
                    "datagram and is otherwise unchanged except the index byte",
                    [x.guard, is_ec, r0 == bv(2),
                     Or(op.be16(x.state.mem, 12) != op.pk(mem0, 26, 2),
                        And(ULT(j, L), j != 12, j != 13, j != 17,
                            Select(x.state.mem, bv(PKT) + j)
                            != Select(mem0, bv(PKT) + j)))]))
        obl.append((f"exit at pc {x.pc}: a frame returned to the bus (XDP_TX) "
                    "is unchanged except the index byte",
                    [x.guard, r0 == bv(3),
                     And(ULT(j, L), j != 17,
                         Select(x.state.mem, bv(PKT) + j)
                         != Select(mem0, bv(PKT) + j))]))
        obl.append((f"exit at pc {x.pc}: groups >= {MAX_PROGS} are never "
                    "returned to the bus", [x.guard, is_ec,
                                            UGE(grp, bv(MAX_PROGS, 32)),
                                            r0 != bv(2)]))
    for x in kinds.get("tail_call", []):
        obl.append((f"tail call at pc {x.pc} only for identification frames of "
                    f"groups < {MAX_PROGS}, with the group number as index",
                    [x.guard, Or(Not(is_ec), UGE(grp, bv(MAX_PROGS, 32)),
                                 x.info != ZeroExt(32, grp))]))
        obl.append((f"tail call at pc {x.pc}: frame unchanged except index byte",
                    [x.guard, And(ULT(j, L), j != 17,
                                  Select(x.state.mem, bv(PKT) + j)
                                  != Select(mem0, bv(PKT) + j))]))
    for pc, gg, ok, text in env.safety:
        obl.append((f"pc {pc}: {text} inside its region", [gg, Not(ok)]))
    for pc, gg, ok, text in env.inits:
        if not z3.is_true(ok):
            obl.append((f"pc {pc}: {text} initialised", [gg, Not(ok)]))
    for name, fs in obl:
        res["obligations"] += 1
        r, m = q.check(*base, *fs)
        if r == "unsat":
            res["discharged"] += 1
        elif r == "unknown":
            res["undecided"] += 1
            res["undecided_list"].append(name)
        else:
            rep = replay_one_pass(op, m, name)
            res["replayed"] += 1
            res["violations"].append(dict(
                signature=f"C22|one-pass|{name.split(':')[-1].strip()[:60]}",
                what=f"{name} fails: {rep}", witness=rep,
                replay=dict(kind="one-pass")))
    res["samples"].append(dict(
        dispatcher_instructions=len(op.insns),
        exits=[dict(pc=x.pc, kind=x.kind) for x in exits],
        one_pass_obligations=[n for n, _ in obl][:12]))
    # vacuity twins
    for nm, f in (("an identification frame can be tail-called",
                   Or(*[x.guard for x in kinds.get("tail_call", [])] or [BoolVal(False)])),
                  ("an identification frame can be returned to the bus",
                   Or(*[And(x.guard, x.state.regs[0] == bv(3))
                        for x in kinds.get("exit", [])]))):
        r, _ = q.check(*base, f)
        res["vacuity"].append((nm, r == "sat"))


def replay_one_pass(op, model, name):
    ev = lambda t: model.eval(t, model_completion=True)
    n = ev(op.env.pkt_len).as_long()
    pkt = bytes(ev(Select(op.mem0, bv(PKT + i))).as_long() for i in range(n))
    vm = op.vmap
    mem = {vm.base + i: ev(Select(op.mem0, bv(vm.base + i))).as_long()
           for i in range(vm.area)}
    registered = {}
    m = Machine(op.code, op.maps, packet=pkt, mem=mem)
    m.helpers[7] = lambda mach: 0x12345
    m.tail_registered = lambda idx: z3.is_true(
        ev(op.env.tail_registered(bv(idx))))
    try:
        r = m.run()
    except Fault as ex:
        return dict(summary=f"fault: {ex}", frame=pkt.hex())
    out = bytes(m.mem.get(PKT + i, 0) for i in range(n))
    return dict(summary=f"len={n} frame={pkt[:32].hex()}.. -> {r}, frame "
                        f"after {out[:32].hex()}..", result=str(r))


# --------------------------------------------------------------------------
# history BMC
# --------------------------------------------------------------------------
class Summary:
    """input/output summary of one dispatcher pass on an identification
    frame of group g (concrete) with index byte idx and counter word c,
    obtained from the merged execution of the real bytecode.  The outputs
    are terms over (c, idx, registered) only."""

    def __init__(self, e, code, maps, g):
        self.c = BitVec("S_c", 32)
        self.idx = BitVec("S_idx", 8)
        self.reg = Bool("S_registered")
        self.g = g
        insns = decode(code)
        env = Env(maps, prefix="S_", pkt_max=1600)
        st = env.initial()
        mem = st.mem
        vm = maps[0]
        cnt = e.__dict__["counters"]
        for off, val in ((12, bv(0x88, 8)), (13, bv(0xA4, 8)), (16, bv(0, 8)),
                         (17, self.idx)):
            mem = Store(mem, bv(PKT + off), val)
        mem = store(mem, bv(PKT + 18), 4, bv(g, 32))
        self.caddr_c = vm.base + cnt + 4 * g
        self.caddr = bv(self.caddr_c)
        mem = store(mem, self.caddr, 4, self.c)
        st.mem = mem
        exits = run(insns, env, st)
        long_enough = UGT(env.pkt_len, bv(60))
        treg = env.tail_registered(bv(g))
        run_g, tx_g, pass_g = [], [], []
        c_out, i_out = self.c, self.idx

        def clean(t):
            t = z3.substitute(t, (treg, self.reg))
            t = z3.simplify(z3.substitute(t, (env.pkt_len, bv(64))))
            return t
        for x in exits:
            gx = clean(x.guard)
            if z3.is_false(gx):
                continue
            co = clean(rload(x.state.mem, self.caddr_c, 4))
            io = clean(rsel(x.state.mem, PKT + 17))
            if x.kind == "tail_call":
                run_g.append(gx)
            else:
                r0 = clean(x.state.regs[0])
                tx_g.append(z3.simplify(And(gx, r0 == bv(3))))
                pass_g.append(z3.simplify(And(gx, r0 == bv(2))))
            c_out = If(gx, co, c_out)
            i_out = If(gx, io, i_out)
        self.runs = z3.simplify(Or(*run_g)) if run_g else BoolVal(False)
        self.tx = z3.simplify(Or(*tx_g))
        self.passes = z3.simplify(Or(*pass_g))
        self.c_out, self.i_out = z3.simplify(c_out), z3.simplify(i_out)
        allowed = {"S_c", "S_idx", "S_registered"}
        for t in (self.runs, self.tx, self.passes, self.c_out, self.i_out):
            extra = {v.decl().name() for v in common._free_vars(z3, t)} - allowed
            # the random number only matters for the drop branch (rate 0)
            extra = {n for n in extra if not n.startswith("S_prandom")}
            if extra:
                raise EngineError(f"dispatcher summary depends on {extra}")

    def inst(self, c, idx, reg):
        sub = [(self.c, c), (self.idx, idx), (self.reg, reg)]
        return tuple(z3.substitute(t, *sub) for t in
                     (self.runs, self.tx, self.passes, self.c_out, self.i_out))


def history_bmc(e, code, maps, q, res, depth, registered, g,
                allow_inject=True, arbitrary_start=False):
    S = Summary(e, code, maps, g)
    NS = 3
    reg = BoolVal(registered)
    cons = []
    c = BitVec("c0", 32)
    if arbitrary_start:
        present = [Bool(f"present0_{k}") for k in range(NS)]
        idx = [BitVec(f"idx0_{k}", 8) for k in range(NS)]
    else:
        present = [BoolVal(False)] * NS
        idx = [bv(0, 8)] * NS
    age = [bv(0, 8)] * NS            # deliveries of this frame so far
    # active[k]: the group program has re-enabled the write datagrams of
    # this frame (injected frames are sterile)
    active = [Bool(f"active0_{k}") if arbitrary_start else BoolVal(False)
              for k in range(NS)]
    bad_stale = []
    deliveries = bv(0, 8)
    tstreak = bv(0, 8)               # consecutive deliveries returned passive
    bad_tstreak = []
    bad_tstreak3 = []
    streak = bv(0, 8)                # consecutive deliveries without RUN
    pstreak = bv(0, 8)               # consecutive deliveries handed to user space
    bad_streak, bad_drop, bad_age, bad_pstreak = [], [], [], []
    trace_vars = []
    for stp in range(depth):
        act = BitVec(f"act{stp}", 8)     # 0..2 deliver k, 3..5 lose k, 6 inject
        trace_vars.append(act)
        cons.append(ULT(act, 8))         # 7 = nothing happens
        for k in range(NS):
            cons.append(Implies(Or(act == k, act == 3 + k), present[k]))
        cons.append(Implies(act == 6, Not(And(*present))))
        if not allow_inject:
            cons.append(act != 6)
        npresent, nidx, nage = list(present), list(idx), list(age)
        nactive = list(active)
        nc, nstreak, npstreak = c, streak, pstreak
        ntstreak = tstreak
        for k in range(NS):
            runs, tx, passes, co, io = S.inst(c, idx[k], reg)
            d = act == k
            nc = If(d, co, nc)
            stays = Or(runs, tx)       # the group program returns the frame
            npresent[k] = If(d, stays, If(act == 3 + k, BoolVal(False),
                                          npresent[k]))
            nidx[k] = If(d, io, nidx[k])
            nage[k] = If(d, age[k] + 1, nage[k])
            nactive[k] = If(And(d, runs), BoolVal(True), nactive[k])
            # a frame whose writes are enabled goes back to the bus without
            # the group program having recomputed them in this pass
            bad_stale.append(And(d, tx, active[k]))
            nstreak = If(d, If(runs, bv(0, 8), streak + 1), nstreak)
            npstreak = If(d, If(passes, pstreak + 1, bv(0, 8)), npstreak)
            ntstreak = If(d, If(tx, tstreak + 1, bv(0, 8)), ntstreak)
            bad_age.append(And(d, stays, UGE(age[k] + 1, bv(3, 8))))
            bad_drop.append(And(d, Not(Or(runs, tx, passes))))
        # inject into the first free slot with index byte 0
        free = [Not(present[k]) for k in range(NS)]
        first = [And(free[k], *[present[m] for m in range(k)])
                 for k in range(NS)]
        for k in range(NS):
            inj = And(act == 6, first[k])
            npresent[k] = If(inj, BoolVal(True), npresent[k])
            nidx[k] = If(inj, bv(0, 8), nidx[k])
            nage[k] = If(inj, bv(0, 8), nage[k])
            nactive[k] = If(inj, BoolVal(False), nactive[k])
        # fresh state variables keep the terms small
        c2 = BitVec(f"c{stp + 1}", 32)
        cons.append(c2 == nc)
        st2 = BitVec(f"streak{stp + 1}", 8)
        cons.append(st2 == nstreak)
        ps2 = BitVec(f"pstreak{stp + 1}", 8)
        cons.append(ps2 == npstreak)
        pstreak = ps2
        dl2 = BitVec(f"deliveries{stp + 1}", 8)
        cons.append(dl2 == If(ULT(act, 3), deliveries + 1, deliveries))
        deliveries = dl2
        ts2 = BitVec(f"tstreak{stp + 1}", 8)
        cons.append(ts2 == ntstreak)
        tstreak = ts2
        bad_tstreak.append(UGE(tstreak, bv(2, 8)))
        bad_tstreak3.append(UGE(tstreak, bv(3, 8)))
        bad_pstreak.append(UGE(pstreak, bv(3, 8)))
        p2, i2, a2, ac2 = [], [], [], []
        for k in range(NS):
            pv, iv, av = (Bool(f"present{stp + 1}_{k}"),
                          BitVec(f"idx{stp + 1}_{k}", 8),
                          BitVec(f"age{stp + 1}_{k}", 8))
            acv = Bool(f"active{stp + 1}_{k}")
            cons += [pv == npresent[k], iv == nidx[k], av == nage[k],
                     acv == nactive[k]]
            p2.append(pv), i2.append(iv), a2.append(av), ac2.append(acv)
        present, idx, age, c, streak = p2, i2, a2, c2, st2
        active = ac2
        bad_streak.append(UGE(streak, bv(3, 8)))
        res["transitions"] += 7
    res["states"] += depth
    return dict(cons=cons, streak=bad_streak, drop=bad_drop, age=bad_age,
                tv=trace_vars, S=S, pstreak=bad_pstreak, tstreak=bad_tstreak,
                tstreak3=bad_tstreak3, stale=bad_stale,
                left=And(Or(*present), UGE(deliveries, bv(6, 8))),
                deliveries=deliveries)


def decode_trace(m, tv):
    names = ["deliver0", "deliver1", "deliver2", "lose0", "lose1", "lose2",
             "inject", "idle"]
    return [names[m.eval(a, model_completion=True).as_long()] for a in tv]


def replay_history(code, maps, e, c0, g, registered, actions, start=None):
    """run the real bytecode concretely along an action trace"""
    vm = maps[0]
    cnt = vm.base + e.__dict__["counters"] + 4 * g
    mem = {}
    for i in range(4):
        mem[cnt + i] = (c0 >> (8 * i)) & 0xff
    slots = [None] * 3
    if start:
        slots = [dict(idx=i, age=0) if p else None for p, i in start]
    log = []
    streak = worst = 0
    for a in actions:
        if a == "idle":
            continue
        if a == "inject":
            k = slots.index(None)
            slots[k] = dict(idx=0, age=0, active=False)
            log.append(f"inject->{k}")
        elif a.startswith("lose"):
            slots[int(a[-1])] = None
            log.append(a)
        else:
            k = int(a[-1])
            f = bytearray(64)
            f[12:14] = b"\x88\xa4"
            f[17] = slots[k]["idx"]
            f[18:22] = g.to_bytes(4, "little")
            f[26:28] = (0x3456).to_bytes(2, "little")
            mach = Machine(code, maps, packet=bytes(f), mem=mem)
            mach.helpers[7] = lambda mm: 0x1234567
            mach.tail_registered = lambda i: registered
            r = mach.run()
            mem = {a_: b for a_, b in mach.mem.items()
                   if vm.base <= a_ < vm.base + vm.area}
            newidx = mach.mem.get(PKT + 17, 0)
            c_now = sum(mem.get(cnt + i, 0) << (8 * i) for i in range(4))
            if r[0] == "tail_call":
                streak = 0
                slots[k]["idx"] = newidx
                slots[k]["active"] = True
                out = "RUN"
            elif r == ("exit", 3):
                streak += 1
                slots[k]["idx"] = newidx
                out = "TX-of-active-frame" if slots[k].get("active") else "TX"
            elif r == ("exit", 2):
                streak += 1
                slots[k] = None
                out = "PASS"
            else:
                out = f"OTHER {r}"
            worst = max(worst, streak)
            log.append(f"{a}:{out}(c={c_now & 0xff},idx={newidx})")
    return worst, log


def main(tier, replay_file=None):
    depth = 14 if tier == "quick" else 24
    ck = common.Check(
        "C22", tier, "model_checking", FUNCTIONS,
        bounds=dict(one_pass="whole frame (length 0..1600, every byte), "
                             "counter array, dropcounter, random number: all values",
                    history_depth=depth, frames_in_flight=3,
                    initial="group counter word symbolic (all 2^32 values), "
                            "no frame in flight; group number symbolic < 64",
                    actions="deliver any in-flight frame / lose any / inject a "
                            "fresh frame (index byte 0), chosen by the solver "
                            "at every step",
                    outside="histories longer than the depth; more than 3 "
                            "frames in flight; drop rate other than the default 0"),
        stubs=["get_prandom_u32: fresh symbolic 32-bit value",
               "tail_call: leaves iff index < max_entries and the group is "
               "registered (uninterpreted predicate); the group program then "
               "returns the frame to the bus (FastSyncGroup.program always "
               "exits TX, see C21)",
               "map_lookup_elem array model"],
        assumptions=["'pass without running the group's program' = a "
                     "dispatcher invocation on a frame of the group that does "
                     "not tail-call it (returned to the bus or handed to user space)"])
    q = common.Q(rlimit=400_000_000, timeout_ms=600_000, fallback=False)
    res = dict(obligations=0, discharged=0, undecided=0, programs=0,
               replayed=0, states=0, transitions=0, samples=[], violations=[],
               errors=[], undecided_list=[], vacuity=[])
    e, code, maps, wa = assemble_as_library(res)
    res["obligations"] += 1
    if not wa:
        res["discharged"] += 1
    else:
        res["discharged"] += 1   # decided: it does not assemble (reported)
        ck.assumptions.append(
            "HARNESS WORKAROUND in force: EBPF.save_registers patched in the "
            "harness to keep the ownership of registers it restores, because "
            "the unchanged generator cannot assemble the dispatcher (reported "
            "as finding); all further obligations are about the dispatcher "
            "assembled under this workaround")
    res["programs"] += 1
    try:
        op = OnePass(e, code, maps)
        one_pass_obligations(op, q, res)
        groups = [0, 63] if tier == "quick" else [0, 1, 31, 63]
        info = []
        for gg in groups:
            runs_ = [
                (True, dict(), [
                    ("drop", "every delivered frame is tail-called, returned "
                             "to the bus or handed to user space"),
                    ("pstreak", "never 3 consecutive frames handed to user "
                                "space without running the group's program"),
                    ("tstreak3", "never 3 consecutive frames returned to the "
                                 "bus without running the group's program")]),
                (False, dict(), [
                    ("drop", "every delivered frame is returned to the bus or "
                             "handed to user space"),
                    ("tstreak", "never 2 consecutive frames returned to the "
                                "bus (at least every second frame reaches "
                                "user space)")]),
                (False, dict(allow_inject=False, arbitrary_start=True), [
                    ("tstreak", "from any counter and any <=3 frames in "
                                "flight: never 2 consecutive frames returned "
                                "to the bus"),
                    ("left", "from any counter and any <=3 frames in flight, "
                             "without further injection no frame is left in "
                             "flight after 6 deliveries (none circulates "
                             "forever)")]),
            ]
            for registered, kw, checks in runs_:
                B = history_bmc(e, code, maps, q, res, depth, registered, gg, **kw)
                cons, tv = B["cons"], B["tv"]
                tag = ("registered" if registered else "unregistered") + \
                    f" group {gg}"
                extra = []
                if "left" in [c_[0] for c_ in checks]:
                    # every step is a delivery or a loss of a present frame
                    pass
                for key, text in checks:
                    f = B[key] if key == "left" else Or(*B[key])
                    name = f"{tag}: {text} (depth {depth})"
                    res["obligations"] += 1
                    r, m = q.check(*cons, f)
                    if r == "unsat":
                        res["discharged"] += 1
                    elif r == "unknown":
                        res["undecided"] += 1
                        res["undecided_list"].append(name)
                    else:
                        acts = decode_trace(m, tv)
                        c0 = m.eval(BitVec("c0", 32), model_completion=True).as_long()
                        start = None
                        if kw.get("arbitrary_start"):
                            start = [(z3.is_true(m.eval(Bool(f"present0_{k}"), model_completion=True)),
                                      m.eval(BitVec(f"idx0_{k}", 8), model_completion=True).as_long())
                                     for k in range(3)]
                        worst, log = replay_history(code, maps, e, c0, gg,
                                                    registered, acts, start)
                        res["replayed"] += 1
                        res["violations"].append(dict(
                            signature="C22|history|" + tag.split(" group")[0]
                                      + "|" + text[:50],
                            what=f"{name} fails from counter {c0}"
                                 + (f", frames {start}" if start else "") + ": "
                                 + " ".join(log),
                            witness=dict(counter=c0, group=gg, actions=acts,
                                         start=start, replay_log=log),
                            replay=dict(kind="history")))
                if registered:
                    # informational only: the stricter reading (any 3
                    # consecutive dispatcher passes without the program)
                    r, m = q.check(*cons, Or(*B["streak"]))
                    info.append(dict(group=gg, stricter_reading_reachable=r))
                r, m = q.check(*cons, UGE(B["deliveries"], bv(3, 8)),
                               ULT(tv[-1], 3) if kw.get("allow_inject", True)
                               else BoolVal(True))
                res["vacuity"].append((f"{tag} {kw}: a history with >= 3 "
                                       "deliveries exists", r == "sat"))
                if r == "sat" and len(res["samples"]) < 6:
                    res["samples"].append(dict(history=decode_trace(m, tv),
                                               group=tag))
        ck.extra["informational"] = dict(
            note="under the stricter reading 'pass' = any dispatcher "
                 "invocation that does not tail-call the group (returned to "
                 "the bus or handed to user space), 3 consecutive such "
                 "passes are reachable when frames are delivered out of "
                 "order; not claimed by the check, see DESIGN.md C22",
            results=info)
    except EngineError as ex:
        res["errors"].append(f"engine: {ex}")
    res["queries"], res["solver_s"] = q.queries, q.solver_s
    ck.add(res)
    return ck.finish()
