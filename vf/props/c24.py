"""C24 -- cancelling a sync group releases its resources and ends cancelled.

The real SyncGroup / FastSyncGroup / ProcessSyncGroup start and run on the
deterministic event loop with simulated terminals and bus; the task is
cancelled after N event-loop steps, N being an engine decision that covers
every step from start-up through the first cycles.
"""
import asyncio

from .. import busmodel, common, pyrun, pysym
from ..pysym import E
from .c30 import SlaveModel

FUNCTIONS = ["ebpfcat/ebpfcat.py:SyncGroupBase.run (try/finally)",
             "ebpfcat/ebpfcat.py:SyncGroupBase.map_fmmu, Terminal.map_fmmu",
             "ebpfcat/ebpfcat.py:FastSyncGroup.run/start/cancel",
             "ebpfcat/ebpfcat.py:FastEtherCat.register_sync_group",
             "ebpfcat/ebpfcat.py:ProcessSyncGroup.start/wait_for_process",
             "ebpfcat/ethercat.py:Terminal.to_operational/set_state"]


class FakeValue:
    def __init__(self, *a):
        self.value = 0


class FakeArray:
    def __init__(self, t, n):
        self.buf = bytearray(n)

    def get_obj(self):
        return self.buf


class FakeProcess:
    pid = 4242

    def __init__(self, target=None):
        self.started = False

    def start(self):
        self.started = True


class FakeCtx:
    Value, Array, Process = FakeValue, FakeArray, FakeProcess


def make_harness(kind, maxstep):
    def harness():
        eth = pysym.module("ethercat")
        ecm = pysym.module("ebpfcat")
        am = pysym.module("arraymap")
        rec = dict(deleted=[], updated=[], frames=0)
        saved = dict(monotonic=ecm.monotonic, lookup=ecm.lookup_elem,
                     update=ecm.update_elem, delete=ecm.delete_elem,
                     cm=am.create_map, mm=am.mmap, os=ecm.os)

        def lookup_elem(fd, key, fmt):
            raise OSError(2, "not found")

        class OsShim:
            def __getattr__(self, n):
                import os
                return getattr(os, n)

            @staticmethod
            def pidfd_open(pid):
                return 77
        ecm.lookup_elem = lookup_elem
        ecm.update_elem = lambda fd, k, v, *a: rec["updated"].append(bytes(k))
        ecm.delete_elem = lambda fd, k: rec["deleted"].append(bytes(k))
        am.create_map = lambda *a, **k: 5
        am.mmap = lambda fd, size: bytearray(size)
        ecm.os = OsShim()
        ecm.randrange = lambda *a: 7
        cancel_at = E.choose(maxstep + 1, "cancel after this many loop steps")
        out = {}
        try:
            async def main():
                loop = asyncio.get_event_loop()
                ecm.monotonic = loop.time
                cls = {"slow": ecm.SimpleEtherCat, "fast": ecm.FastEtherCat,
                       "process": ecm.ParallelEtherCat}[kind]
                ec = busmodel.make_ec(eth, cls)
                ec.programs = 99

                class FakeFmmuLock:
                    base = 1 << 22

                    def get_next_addr(self):
                        self.base += 1 << 12
                        return self.base
                ec.fmmu_lock_file = FakeFmmuLock()

                class Tr:
                    def sendto(self, data, addr):
                        rec["frames"] += 1
                        d = bytes(data) if not isinstance(
                            data, (pysym.SByteArray, pysym.SBytes)) else data
                        if rec["frames"] <= 6:
                            loop.call_soon(ec.datagram_received, d, None)
                ec.transport = Tr()
                models, terms = [], []
                for i, (isz, osz) in enumerate([(2, 2), (2, 0)]):
                    m = SlaveModel(1000 + i)
                    t = ecm.EBPFTerminal(ec)
                    t.position, t.name = 1000 + i, f"t{i}"
                    t.use_fmmu = True
                    t.pdo_in_sz, t.pdo_in_off = isz, 0x1100
                    t.pdo_out_sz, t.pdo_out_off = osz, 0x1000
                    t.fmmu_used = [None, None, None]
                    t.pdos = {(0x6000, 1): (eth.SyncManager.IN, 0, "H"),
                              (0x7000, 1): (eth.SyncManager.OUT, 0, "H")}
                    models.append(m), terms.append(t)

                class Dev(ecm.Device):
                    inp = ecm.TerminalVar()
                    out = ecm.TerminalVar()

                    def program(self):
                        pass
                devs = []
                for t in terms:
                    d = Dev()
                    d.inp = ecm.ProcessDesc(0x6000, 1).__get__(t, type(t))
                    if t.pdo_out_sz:
                        d.out = ecm.ProcessDesc(0x7000, 1).__get__(t, type(t))
                    devs.append(d)
                bus = busmodel.Bus(eth, models)
                srv = asyncio.ensure_future(bus.serve(ec))
                if kind == "slow":
                    sg = ecm.SyncGroup(ec, devs)
                elif kind == "fast":
                    sg = ecm.FastSyncGroup(ec, devs)
                    sg.load = lambda *a, **k: None
                    sg.close = lambda: None
                    sg.file_descriptor = 11
                else:
                    sg = ecm.ProcessSyncGroup.__new__(ecm.ProcessSyncGroup)
                    sg.ctx = FakeCtx()
                    ecm.SyncGroupBase.__init__(sg, ec, devs)
                    ecm.SimulatedEBPF.__init__(sg, subprograms=devs)
                sg.cycletime = 0.01
                base = loop.steps

                def hook(lp):
                    import inspect
                    started = sg.task is not None and \
                        inspect.getcoroutinestate(sg.task.get_coro()) != "CORO_CREATED"
                    if lp.steps - base >= cancel_at + 1 and "cancelled" not in out \
                            and started and not sg.task.done():
                        out["cancelled"] = lp.steps - base
                        sg.task.cancel()
                loop.step_hooks.append(hook)
                task = sg.start()
                out["task"] = task
                if kind == "process":
                    # the child reacts to runningValue and exits a little later
                    async def child():
                        while sg.runningValue.value:
                            await asyncio.sleep(0.003)
                        await asyncio.sleep(0.003)
                        out["process_exited"] = True
                        if 77 in loop.readers:
                            loop.fire_reader(77)
                    asyncio.ensure_future(child())
                for _ in range(300):
                    await asyncio.sleep(0.002)
                    if task.done():
                        break
                loop.step_hooks.remove(hook)
                out["done"] = task.done()
                out["was_cancelled"] = task.done() and task.cancelled()
                out["exc"] = task.exception() if task.done() and \
                    not task.cancelled() else None
                if not task.done():
                    task.cancel()
                out["al"] = [[x[1] for x in m.log if x[0] == "al"] for m in models]
                out["fmmu"] = [list(t.fmmu_used) for t in terms]
                out["running"] = sg.runningValue.value if kind == "process" else None
                srv.cancel()
            pysym.run_async(main, max_steps=200000)
        finally:
            ecm.monotonic = saved["monotonic"]
            ecm.lookup_elem, ecm.update_elem = saved["lookup"], saved["update"]
            ecm.delete_elem, ecm.os = saved["delete"], saved["os"]
            am.create_map, am.mmap = saved["cm"], saved["mm"]
        if "cancelled" not in out:
            return           # the task ended before step N (nothing to cancel)
        where = f"cancel after loop step {out['cancelled']}"
        E.prove(out["done"], f"{where}: the task ends")
        E.prove(out["was_cancelled"],
                f"{where}: the task ends as cancelled, not with "
                f"{type(out['exc']).__name__ if out['exc'] else 'another state'}")
        if kind != "process":
            for i, seq in enumerate(out["al"]):
                if 8 in seq:
                    k = len(seq) - 1 - seq[::-1].index(8)
                    E.prove(4 in seq[k + 1:],
                            f"{where}: terminal {i} was asked to go OPERATIONAL "
                            f"and is asked back to SAFE-OPERATIONAL (requests {seq})")
            E.prove(all(x is None for f in out["fmmu"] for x in f),
                    f"{where}: all FMMUs are freed ({out['fmmu']})")
        if kind == "fast":
            E.prove(len(rec["deleted"]) == len(rec["updated"]),
                    f"{where}: the kernel program is unregistered "
                    f"(registered {len(rec['updated'])}, removed {len(rec['deleted'])})")
        if kind == "process":
            E.prove(not out["running"], f"{where}: the subprocess is told to stop")
            E.prove(out.get("process_exited"), f"{where}: the subprocess is "
                                               "waited for")
    return harness


def worker(args):
    kind, maxstep = args
    res = pyrun.new_res()
    name = f"{kind} sync group, cancellation at loop step 0..{maxstep}"
    try:
        st = pyrun.run("C24", name, make_harness(kind, maxstep), res,
                       maxtime=900,
                       sig=lambda w: f"{kind}|" + w.split(":", 1)[-1].split("(")[0].strip()[:60])
        res["samples"].append(dict(harness=name, **{
            k: st[k] for k in ("paths", "aborted", "decisions", "obligations",
                               "queries", "wall")}))
    except Exception as ex:
        import traceback
        res["errors"].append(f"{name}: harness exception {ex} "
                             f"{traceback.format_exc()[-500:]}")
    return res


def main(tier, replay_file=None):
    n = 60 if tier == "quick" else 140
    ck = common.Check(
        "C24", tier, "model_checking", FUNCTIONS,
        bounds=dict(cancel_point=f"after every event-loop step 0..{n} from "
                                 "start() on (start-up, state changes, first "
                                 "cycles); one history per step",
                    groups="slow, fast and process-based sync group over two "
                           "terminals (one read-write, one read-only)",
                    outside="cancellation later than the bound; bus faults "
                            "during shutdown"),
        stubs=["datagram-level bus model, AL registers follow requests at once",
               "bpf map calls (lookup/update/delete_elem), program load/close, "
               "pidfd_open, multiprocessing context replaced by recording stubs",
               "time.monotonic = virtual loop time"])
    for res in common.pmap(worker, [("slow", n), ("fast", n), ("process", min(n, 40))]):
        ck.add(res)
    return ck.finish()
