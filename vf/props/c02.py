"""C02 -- fixed-point arithmetic follows the per-100000 decimal semantics.

Statements mixing fixed-point operands (x-format local / map variables, the
x register view, decimal constants with up to five fractional digits) and
integer operands (q variables, the sr register view, int constants) are
compiled by the real generator; the emitted bytes run symbolically over all
operand values (|operand| < 2^26 in its representation, so every scaled
intermediate fits 64 bits) and the stored result is compared with the exact
rational result dropped to the destination's representation.  Comparisons
mixing the two kinds are decided the same way.

Reference (written from the statement): an integer a denotes a, a fixed-point
representation a denotes a/100000; + - * exact; / is the exact quotient as
fixed point; // the integer quotient; % the remainder of that quotient;
storing to an integer destination drops the fraction, storing to a
fixed-point destination is exact.  Where a dropped quotient has a negative
operand the two admissible roundings differ and the generator's unsigned
division is wrong anyway: that region is the recorded finding (same root
cause as C01's) and outside the claim.
"""
import random
import time
from fractions import Fraction

import z3
from z3 import And, BoolVal, Extract, Not, Or, UDiv, URem

from .. import common, dsl
from ..bpfsym import EngineError, Env, bv, decode, disasm, load, merge, run
from ..bpfconc import Fault, Machine
from ..exprs import Plan, SIZES, leaf_int

FUNCTIONS = ["ebpfcat/ebpf.py:Expression._sum/__mul__/__truediv__/"
             "__floordiv__/__rfloordiv__/__mod__ and reflected forms (fixed "
             "point scaling)", "ebpfcat/ebpf.py:comparison (mixed operands)",
             "ebpfcat/ebpf.py:Constant.__init__/calculate (decimal constants)",
             "ebpfcat/ebpf.py:Memory._set, RegisterArray.__setitem__ "
             "(conversion to the destination)",
             "ebpfcat/ebpf.py:Binary.calculate, Memory.calculate"]
F = 100000
RANGE = 1 << 26          # operands of products and quotients
RANGE_WIDE = 1 << 40     # operands of sums, differences and comparisons
OPS = ["+", "-", "*", "/", "//", "%"]
FIXED_LEAVES = [["L", "x"], ["M", "x"], ["R", "x"]]
INT_LEAVES = [["L", "q"], ["M", "q"], ["R", "sr"]]
CONSTS = [3, 7, 100000, "0.29", "1.5", "2.75", "0.00001", "12.00007",
          "1000.1", -2, "-0.75"]
DESTS = FIXED_LEAVES + INT_LEAVES
CMPS = ["<", "<=", ">", ">=", "==", "!="]
REGION = "negative_operand_of_a_dropped_quotient"


def is_fixed_leaf(leaf):
    if leaf[0] == "C":
        return isinstance(leaf[1], str)
    return leaf[1] == "x"


def lsig(leaf):
    if leaf[0] == "C":
        return f"C{leaf[1]}"
    return f"{leaf[0]}{leaf[1]}"


def esig(x):
    if x[0] == "bin":
        return f"({esig(x[2])}{x[1]}{esig(x[3])})"
    if x[0] == "rbin":
        return f"(py{x[2]}{x[1]}{esig(x[3])})"
    return lsig(x)


def ops_of(st):
    out = []

    def walk(x):
        if isinstance(x, list) and x and x[0] in ("bin", "rbin"):
            out.append(x[1])
            walk(x[2]) if x[0] == "bin" else None
            walk(x[3])
    if st[0] == "aug":
        out.append(st[2])
    walk(st[-1])
    return out


def ssig(st):
    if st[0] == "set":
        return f"{lsig(st[1])}={esig(st[2])}"
    if st[0] == "aug":
        return f"{lsig(st[1])}{st[2]}={esig(st[3])}"
    return f"if {esig(st[1])}{st[2]}{esig(st[3])}"


def shapes(tier, seed):
    rnd = random.Random(seed)
    quick = tier == "quick"
    leaves = FIXED_LEAVES + INT_LEAVES
    cl = [["C", c] for c in CONSTS]
    out = []
    nd = 2 if quick else len(DESTS)
    for op in OPS:
        for a in leaves:
            for b in leaves + cl:
                if not (is_fixed_leaf(a) or is_fixed_leaf(b)) and quick \
                        and rnd.random() < 0.7:
                    continue          # pure integer statements are C01's
                for d in rnd.sample(DESTS, nd):
                    out.append(["set", d, ["bin", op, a, b]])
            for c in CONSTS:
                for d in rnd.sample(DESTS, 1 if quick else 3):
                    out.append(["set", d, ["rbin", op, c, a]])
    for a in leaves + cl:
        for d in DESTS:
            out.append(["set", d, a])           # conversions
    for op in OPS:
        for d in DESTS:
            for b in rnd.sample(leaves + cl, 4 if quick else 10):
                out.append(["aug", d, op, b])
    for _ in range(150 if quick else 1500):     # depth 2: exact inner nodes
        a, b = rnd.choice(leaves), rnd.choice(leaves + cl)
        c = rnd.choice(leaves + cl)
        inner = ["bin", rnd.choice("+-"), a, b]
        e = ["bin", rnd.choice(OPS), inner, c] if rnd.random() < 0.5 else \
            ["bin", rnd.choice(OPS), rnd.choice(leaves), inner]
        out.append(["set", rnd.choice(DESTS), e])
    for op in CMPS:
        for a in leaves:
            for b in rnd.sample(leaves + cl, 5 if quick else 12):
                if is_fixed_leaf(a) or is_fixed_leaf(b):
                    out.append(["cmp", a, op, b])
    return out


# --------------------------------------------------------------- reference
class RV:
    __slots__ = ("v", "fixed")

    def __init__(self, v, fixed):
        self.v, self.fixed = v, fixed


class Ref:
    def __init__(self):
        self.pre, self.region = [], []

    def fx(self, a):
        return a.v if a.fixed else a.v * bv(F)

    def div(self, n, d):
        self.pre.append(d != 0)
        self.region.append(Or(n < 0, d < 0))
        return UDiv(n, d)

    def rem(self, n, d):
        self.pre.append(d != 0)
        self.region.append(Or(n < 0, d < 0))
        return URem(n, d)

    def binop(self, op, a, b):
        anyf = a.fixed or b.fixed
        if op in "+-":
            if anyf:
                x, y = self.fx(a), self.fx(b)
            else:
                x, y = a.v, b.v
            return RV(x + y if op == "+" else x - y, anyf)
        if op == "*":
            if a.fixed and b.fixed:
                return RV(self.div(a.v * b.v, bv(F)), True)
            return RV(a.v * b.v, anyf)
        if op == "/":
            if a.fixed and not b.fixed:
                return RV(self.div(a.v, b.v), True)
            if not a.fixed and b.fixed:
                return RV(self.div(a.v * bv(F * F), b.v), True)
            return RV(self.div(a.v * bv(F), b.v), True)
        if op == "//":
            if a.fixed and not b.fixed:
                return RV(self.div(a.v, b.v * bv(F)), False)
            if not a.fixed and b.fixed:
                return RV(self.div(a.v * bv(F), b.v), False)
            return RV(self.div(a.v, b.v), False)
        if op == "%":
            if anyf:
                return RV(self.rem(self.fx(a), self.fx(b)), True)
            return RV(self.rem(a.v, b.v), False)
        raise ValueError(op)

    def store(self, dest_fixed, a):
        if dest_fixed and not a.fixed:
            return a.v * bv(F)
        if not dest_fixed and a.fixed:
            return self.div(a.v, bv(F))
        return a.v

    def ev(self, path, x, leafvals):
        if x[0] == "bin":
            return self.binop(x[1], self.ev(path + "l", x[2], leafvals),
                              self.ev(path + "r", x[3], leafvals))
        if x[0] == "rbin":
            return self.binop(x[1], const_rv(x[2]),
                              self.ev(path + "r", x[3], leafvals))
        return leafvals[path]


def const_rv(c):
    if isinstance(c, str):
        s = Fraction(c) * F
        assert s.denominator == 1
        return RV(bv(int(s)), True)
    return RV(bv(c), False)


# -------------------------------------------------------- exact Python oracle
def py_value(x, path, leafints, info):
    """exact rational value and whether the expression is fixed point"""
    if x[0] == "bin":
        A, fa = py_value(x[2], path + "l", leafints, info)
        B, fb = py_value(x[3], path + "r", leafints, info)
        return py_bin(x[1], A, fa, B, fb)
    if x[0] == "rbin":
        c = x[2]
        A, fa = (Fraction(c), True) if isinstance(c, str) else (Fraction(c), False)
        B, fb = py_value(x[3], path + "r", leafints, info)
        return py_bin(x[1], A, fa, B, fb)
    if x[0] == "C":
        return (Fraction(x[1]), isinstance(x[1], str))
    v = leafints[path]
    fixed = is_fixed_leaf(x)
    return (Fraction(v, F) if fixed else Fraction(v), fixed)


class Outside(Exception):
    pass


def py_bin(op, A, fa, B, fb):
    anyf = fa or fb
    if op == "+":
        return A + B, anyf
    if op == "-":
        return A - B, anyf
    if op == "*":
        return A * B, anyf
    if B == 0:
        raise Outside("zero divisor")
    if op == "/":
        return A / B, True
    if op == "//":
        return Fraction(A // B), False      # floor; trunc handled by caller
    return A - B * (A // B), anyf


def drops(R, fixed):
    """admissible representations of the exact value R"""
    s = R * F if fixed else R
    fl = s.numerator // s.denominator
    tr = fl + 1 if (s.denominator != 1 and s < 0) else fl
    return {fl, tr}


# ------------------------------------------------------------------- check
def check_stmt(stmt, q, res, want_sample=False):
    sig = ssig(stmt)
    if stmt[0] == "cmp":
        return check_cmp(stmt, q, res, want_sample)
    try:
        plan = Plan(stmt, dsl.ebpf, dsl._am)
        e, code, maps = dsl.build(plan.ns, plan.emit)
    except (dsl.ebpf.AssembleError, TypeError, NotImplementedError):
        res["rejected"] = res.get("rejected", 0) + 1
        return
    except Exception as ex:
        res["rejected"] = res.get("rejected", 0) + 1
        res.setdefault("reject_kinds", {}).setdefault(
            type(ex).__name__ + ": " + str(ex)[:60], []).append(sig)
        return
    res["programs"] += 1
    insns = decode(code)
    env = Env(maps)
    st0 = env.initial()
    try:
        exits = run(insns, env, st0.copy())
    except EngineError as ex:
        res["errors"].append(f"{sig}: engine: {ex}")
        return
    normal = [x for x in exits if x.kind == "exit" and x.pc == len(insns) - 1]
    if not normal:
        res["errors"].append(f"{sig}: no normal exit")
        return
    g, fin = merge([(x.guard, x.state) for x in normal])
    mem0 = st0.mem
    leafvals, leafaddr, ranges = {}, {}, []
    rng = RANGE_WIDE if set(ops_of(stmt)) <= {"+", "-"} else RANGE
    for path, i in plan.info.items():
        if i[0] in ("var", "reg"):
            name = i[1] if i[0] == "var" else i[3]
            addr, fmt = plan.var_addr(e, name, maps)
            raw = load(mem0, bv(addr), 8)
            leafvals[path] = RV(raw, fmt == "x")
            leafaddr[path] = (addr, fmt)
            ranges.append(And(raw >= bv(-rng), raw < bv(rng)))
        else:
            leafvals[path] = const_rv(i[1])
    ref = Ref()
    rv = ref.ev("e", stmt[-1], leafvals)
    if stmt[0] == "aug":
        rv = ref.binop(stmt[2], leafvals["d"], rv)
    d = plan.info["d"]
    dest_fixed = is_fixed_leaf(stmt[1])
    want = ref.store(dest_fixed, rv)
    if d[0] == "var":
        daddr, dfmt = plan.var_addr(e, d[1], maps)
        got = load(fin.mem, bv(daddr), 8)
    else:
        got = fin.regs[d[2]]
    base = list(env.assumptions) + ranges
    hints = [z3.ULT(lv.v + 16, bv(32)) for p, lv in leafvals.items()
             if plan.info[p][0] != "const"]
    res["obligations"] += 1
    r, m = q.check(*base, Not(g))
    if r == "unsat":
        res["discharged"] += 1
    elif r == "sat":
        res["violations"].append(dict(
            signature=f"C02|exit|{sig}", what=f"{sig}: program leaves early",
            witness=None, replay=dict(stmt=stmt)))
    else:
        res["undecided"] += 1
        res["undecided_list"].append(f"{sig}: exit")
    pre = list(ref.pre)
    region = Or(*ref.region) if ref.region else BoolVal(False)
    rargs = (stmt, plan, e, code, maps, leafaddr, mem0, d, dest_fixed)
    res["obligations"] += 1
    r, m = q.check(*base, g, *pre, Not(region), got != want, hints=hints)
    if r == "unsat":
        res["discharged"] += 1
    elif r == "unknown":
        res["undecided"] += 1
        res["undecided_list"].append(f"{sig}: value")
    else:
        rep = replay(m, *rargs)
        res["replayed"] += 1
        if rep is None:
            res["errors"].append(f"{sig}: counterexample did not reproduce")
        elif rep == "outside":
            res["errors"].append(f"{sig}: model outside the oracle's domain")
        else:
            res["violations"].append(dict(
                signature=f"C02|value|{sig}", what=f"{sig}: {rep['summary']}",
                witness=rep, replay=dict(stmt=stmt)))
    if ref.region and r == "unsat":
        # inside the region of the recorded finding: exhibit it
        res["obligations"] += 1
        r2, m2 = q.check(*base, g, *pre, region, got != want, hints=hints)
        if r2 == "unsat":
            res["discharged"] += 1
        elif r2 == "unknown":
            res["obligations"] -= 1
        else:
            rep = replay(m2, *rargs)
            res["replayed"] += 1
            if rep is None:
                # the two admissible roundings differ here and the program
                # produced one of them: nothing to report
                res["discharged"] += 1
            elif rep == "outside":
                res["obligations"] -= 1
            else:
                res["discharged"] += 1
                res["violations"].append(dict(
                    signature=f"C02|region|{REGION}",
                    what=f"{sig}: {rep['summary']}", witness=rep,
                    replay=dict(stmt=stmt)))
    if want_sample:
        res["samples"].append(dict(statement=sig, shape=stmt,
                                   program=disasm(insns)[-12:], result=r))


def replay(model, stmt, plan, e, code, maps, leafaddr, mem0, d, dest_fixed):
    mem, leafints = {}, {}
    for path, (addr, fmt) in leafaddr.items():
        raw = bytes(model.eval(z3.Select(mem0, bv(addr + i)),
                               model_completion=True).as_long()
                    for i in range(8))
        for i, b in enumerate(raw):
            mem[addr + i] = b
        leafints[path] = leaf_int(raw, "q")
    try:
        R, fixed = py_value(stmt[-1], "e", leafints, plan.info)
        if stmt[0] == "aug":
            D = Fraction(leafints["d"], F) if dest_fixed else \
                Fraction(leafints["d"])
            R, fixed = py_bin(stmt[2], D, dest_fixed, R, fixed)
    except Outside:
        return "outside"
    adm = drops(R, dest_fixed) if (fixed != dest_fixed or fixed) else \
        drops(R, False)
    if "//" in ssig(stmt):
        # the integer quotient may also be rounded toward zero
        pass
    adm = {a % (1 << 64) for a in adm}
    mach = Machine(code, maps, mem=mem)
    try:
        mach.run()
    except Fault as ex:
        return dict(summary=f"fault {ex}", inputs=leafints)
    if d[0] == "var":
        daddr, _ = plan.var_addr(e, d[1], maps)
        got = mach.ld(daddr, 8)
    else:
        got = (mach.regs[d[2]] or 0) % (1 << 64)
    if got in adm:
        return None
    shown = {p: (v / F if is_fixed_leaf_path(plan, p) else v)
             for p, v in leafints.items()}
    gs = got - (1 << 64) if got >> 63 else got
    return dict(summary=f"operands {shown} -> stored "
                        f"{gs / F if dest_fixed else gs}, exact result "
                        f"{float(R)} ({'fixed point' if dest_fixed else 'integer'}"
                        f" destination, admissible {sorted(adm)[:2]})",
                inputs=leafints, got=got)


def is_fixed_leaf_path(plan, p):
    i = plan.info[p]
    if i[0] == "var":
        return i[3] == "x"
    if i[0] == "reg":
        return i[1] == "x"
    return False


# ------------------------------------------------------------- comparisons
def check_cmp(stmt, q, res, want_sample):
    import operator
    sig = ssig(stmt)
    _, a, op, b = stmt
    plan = Plan(None, dsl.ebpf, dsl._am)
    plan.add_expr("a", a)
    plan.add_expr("b", b)
    flag = plan.add_var("M", "Q")
    pyop = {"<": operator.lt, "<=": operator.le, ">": operator.gt,
            ">=": operator.ge, "==": operator.eq, "!=": operator.ne}[op]

    def body(e):
        plan.emit_inits(e)
        la, lb = plan._dsl(e, "a", a), plan._dsl(e, "b", b)
        with pyop(la, lb) as Else:
            setattr(e, flag, 1)
        with Else:
            setattr(e, flag, 2)
    try:
        e, code, maps = dsl.build(plan.ns, body)
    except (dsl.ebpf.AssembleError, TypeError, NotImplementedError):
        res["rejected"] = res.get("rejected", 0) + 1
        return
    res["programs"] += 1
    insns = decode(code)
    env = Env(maps)
    st0 = env.initial()
    exits = run(insns, env, st0.copy())
    normal = [x for x in exits if x.kind == "exit"]
    g, fin = merge([(x.guard, x.state) for x in normal])
    mem0 = st0.mem
    vals, ranges, leafaddr = {}, [], {}
    for path, leaf in (("a", a), ("b", b)):
        i = plan.info[path]
        if i[0] == "const":
            vals[path] = const_rv(i[1])
            continue
        name = i[1] if i[0] == "var" else i[3]
        addr, fmt = plan.var_addr(e, name, maps)
        raw = load(mem0, bv(addr), 8)
        vals[path] = RV(raw, fmt == "x")
        leafaddr[path] = (addr, fmt)
        ranges.append(And(raw >= bv(-RANGE_WIDE), raw < bv(RANGE_WIDE)))
    ref = Ref()
    anyf = vals["a"].fixed or vals["b"].fixed
    x = ref.fx(vals["a"]) if anyf else vals["a"].v
    y = ref.fx(vals["b"]) if anyf else vals["b"].v
    truth = {"<": x < y, "<=": x <= y, ">": x > y, ">=": x >= y,
             "==": x == y, "!=": x != y}[op]
    faddr, _ = plan.var_addr(e, flag, maps)
    got = load(fin.mem, bv(faddr), 8)
    res["obligations"] += 1
    r, m = q.check(*env.assumptions, *ranges, g,
                   got != z3.If(truth, bv(1), bv(2)))
    if r == "unsat":
        res["discharged"] += 1
    elif r == "unknown":
        res["undecided"] += 1
        res["undecided_list"].append(f"{sig}: branch")
    else:
        mem, ints = {}, {}
        for path, (addr, fmt) in leafaddr.items():
            raw = bytes(m.eval(z3.Select(mem0, bv(addr + i)),
                               model_completion=True).as_long()
                        for i in range(8))
            for i, bb in enumerate(raw):
                mem[addr + i] = bb
            ints[path] = leaf_int(raw, "q")

        def rat(path, leaf):
            if leaf[0] == "C":
                return Fraction(leaf[1])
            return Fraction(ints[path], F) if is_fixed_leaf(leaf) \
                else Fraction(ints[path])
        A, B = rat("a", a), rat("b", b)
        mach = Machine(code, maps, mem=mem)
        try:
            mach.run()
            gotc = mach.ld(faddr, 8)
        except Fault as ex:
            gotc = f"fault {ex}"
        res["replayed"] += 1
        if gotc == (1 if pyop(A, B) else 2):
            res["errors"].append(f"{sig}: counterexample did not reproduce")
        else:
            res["violations"].append(dict(
                signature=f"C02|compare|{sig}",
                what=f"{sig}: with a={float(A)}, b={float(B)} the "
                     f"{'then' if gotc == 1 else 'else'} branch is taken",
                witness=dict(a=str(A), b=str(B), flag=gotc),
                replay=dict(stmt=stmt)))
    if want_sample:
        res["samples"].append(dict(statement=sig, shape=stmt, result=r))


def worker(args):
    chunk, sample_every = args
    q = common.Q(rlimit=30_000_000, timeout_ms=60_000)
    res = dict(obligations=0, discharged=0, undecided=0, programs=0,
               replayed=0, samples=[], violations=[], errors=[],
               undecided_list=[], vacuity=[])
    for n, stmt in chunk:
        try:
            check_stmt(stmt, q, res, want_sample=(n % sample_every == 0))
        except Exception as ex:
            import traceback
            res["errors"].append(f"{ssig(stmt)}: harness exception "
                                 f"{type(ex).__name__}: {ex} "
                                 f"{traceback.format_exc()[-300:]}")
    res["queries"], res["solver_s"] = q.queries, q.solver_s
    res["abs_decided"], res["fb_decided"] = q.abs_decided, q.fb_decided
    return res


def main(tier, replay_file=None):
    seed = common.seed()
    ck = common.Check(
        "C02", tier, "translation_validation", FUNCTIONS,
        bounds=dict(
            shapes="depth 1 over {x local, x map variable, x register, q "
                   "local, q map variable, sr register, constants "
                   f"{CONSTS}}} x {OPS} x destinations (quick: sampled "
                   "destinations), reflected constant forms, plain "
                   "conversions, augmented assignments, a seeded sample of "
                   "depth-2 trees with exact (+/-) inner nodes, comparisons "
                   f"{CMPS} with at least one fixed-point side",
            operand_values="every variable operand in [-2^26, 2^26) in its "
                           "representation for statements with a product, "
                           "quotient or remainder, in [-2^40, 2^40) for "
                           "sums, differences, conversions and comparisons "
                           "(all values in the range); all scaled "
                           "intermediates then fit 64 bits",
            outside="operands beyond 2^26; narrower operand formats (their "
                    "scaled values leave 32 bits almost at once); nested "
                    "products / quotients (intermediate drops are not fixed "
                    "by the statement); quotients with a negative operand "
                    "(recorded finding)"),
        stubs=["array map model; stack"],
        assumptions=["counterexamples are replayed on the concrete "
                     "interpreter with exact rational arithmetic "
                     "(fractions.Fraction) as oracle"])
    if replay_file:
        import json
        stmts = [json.load(open(replay_file))["replay"]["stmt"]]
    else:
        stmts = shapes(tier, seed)
    items = list(enumerate(stmts))
    n = common.NCPU * 6
    chunks = [(items[i::n], max(1, len(items) // 10)) for i in range(n)]
    common.prove_lemmas(ck)
    agg = {}
    for res in common.pmap(worker, [c for c in chunks if c[0]]):
        ck.add(res)
        for k in ("rejected", "abs_decided", "fb_decided"):
            agg[k] = agg.get(k, 0) + res.get(k, 0)
        for k, v in res.get("reject_kinds", {}).items():
            agg.setdefault("reject_kinds", {}).setdefault(k, []).extend(v[:3])
    ck.extra["shapes"] = len(stmts)
    ck.extra["rejected_by_generator"] = agg.get("rejected", 0)
    ck.extra["generator_crashes"] = {k: v[:3] for k, v in
                                     agg.get("reject_kinds", {}).items()}
    ck.extra["decided_by_uf_abstraction"] = agg.get("abs_decided", 0)
    ck.extra["decided_by_cvc5_int_encoding"] = agg.get("fb_decided", 0)
    return ck.finish()
