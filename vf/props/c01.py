"""C01 -- integer DSL expressions compute the exact value.

Translation validation: every shape (statement) is compiled by the real
generator; the emitted bytes are executed symbolically (bpfsym) on a fully
symbolic initial memory, and the stored result is compared with the
reference semantics for all operand values at once.
"""
import itertools
import random
import time

import z3
from z3 import And, Extract, Not, Or, BoolVal

from .. import common, dsl
from ..bpfsym import (EngineError, Env, bv, decode, disasm, load, merge, run)
from ..bpfconc import Fault, Machine
from ..exprs import (Outside, Plan, Ref, SIZES, VIEWFMT, fmt_signed,
                     is_ring_only, leaf_int, leaf_val, pyeval, stmt_width,
                     const_val)

FUNCTIONS = [
    "ebpfcat/ebpf.py:Expression._binary/_sum/__mul__/__floordiv__/"
    "__rfloordiv__/__rshift__/__and__/__neg__/__abs__ and reflected forms",
    "ebpfcat/ebpf.py:Binary.calculate", "ebpfcat/ebpf.py:Unary.calculate",
    "ebpfcat/ebpf.py:Negate/Absolute.calculate_unary",
    "ebpfcat/ebpf.py:Expression.load/calculate/get_address",
    "ebpfcat/ebpf.py:Memory.calculate/_set/__iadd__/__isub__",
    "ebpfcat/ebpf.py:Constant.calculate", "ebpfcat/ebpf.py:Register.calculate",
    "ebpfcat/ebpf.py:RegisterArray.__setitem__",
    "ebpfcat/ebpf.py:EBPF.get_free_register/assemble/append",
    "ebpfcat/ebpf.py:LocalVar.__set_name__/fmt_addr, MemoryDesc.__get__/__set__",
    "ebpfcat/arraymap.py:ArrayMap.collect/init, ArrayGlobalVarDesc.fmt_addr",
]

BINOPS = ["+", "-", "*", "//", "%", "&", "|", "^", "<<", ">>"]
CONSTS_QUICK = [7, -3, 0x7fffffff, 0x80000000, 0x123456789a, -(1 << 40),
                (1 << 64) - 1]
CONSTS_MORE = [0, 1, -1, 2, 127, 128, 255, 0x7fff, 0x8000, 0xffff,
               -0x80000000, -0x80000001, 0xffffffff, 0x100000000,
               (1 << 63) - 1, -(1 << 63), 1 << 63, 100000, 31, 32, 63, 64]
VAR_LEAVES_QUICK = [["L", f] for f in "BhIiQq"] + \
                   [["M", f] for f in "HbiQ"] + \
                   [["R", v] for v in ("r", "sr", "w", "sw")]
VAR_LEAVES_ALL = [["L", f] for f in "BbHhIiQq"] + \
                 [["M", f] for f in "BbHhIiQq"] + \
                 [["R", v] for v in ("r", "sr", "w", "sw")]
DESTS_QUICK = [["L", f] for f in "BhIiQq"] + [["M", "I"], ["M", "q"]] + \
              [["R", v] for v in ("r", "sr", "w", "sw")]
DESTS_ALL = VAR_LEAVES_ALL


def leafclass(leaf):
    k = leaf[0]
    if k in ("L", "M"):
        return f"{k}{leaf[1]}"
    if k == "R":
        return f"R{leaf[1]}"
    c = leaf[1]
    if -0x80000000 <= c < 0x80000000:
        return "Csmall" + ("-" if c < 0 else "+")
    if -(1 << 63) <= c < (1 << 64):
        return "Clong" + ("-" if c < 0 else "+")
    return "Chuge"


def shape_sig(x):
    k = x[0]
    if k == "bin":
        return f"({shape_sig(x[2])}{x[1]}{shape_sig(x[3])})"
    if k == "rbin":
        return f"(py{leafclass(['C', x[2]])}{x[1]}{shape_sig(x[3])})"
    if k == "neg":
        return f"-{shape_sig(x[1])}"
    if k == "abs":
        return f"abs({shape_sig(x[1])})"
    return leafclass(x)


def stmt_sig(stmt):
    if stmt[0] == "set":
        return f"{leafclass(stmt[1])}={shape_sig(stmt[2])}"
    return f"{leafclass(stmt[1])}{stmt[2]}={shape_sig(stmt[3])}"


# --------------------------------------------------------------------------

def shapes(tier, seed):
    rnd = random.Random(seed)
    quick = tier == "quick"
    leaves = VAR_LEAVES_QUICK if quick else VAR_LEAVES_ALL
    consts = CONSTS_QUICK if quick else CONSTS_QUICK + CONSTS_MORE
    dests = DESTS_QUICK if quick else DESTS_ALL
    cl = [["C", c] for c in consts]
    out = []

    def pick_dests(n):
        return rnd.sample(dests, n) if n < len(dests) else dests

    nd = 2 if quick else 5
    # depth 1 binary: var op var, var op const, const op var (reflected)
    for op in BINOPS:
        for a in leaves:
            for b in leaves + cl:
                for d in pick_dests(nd):
                    out.append(["set", d, ["bin", op, a, b]])
            for c in consts:
                for d in pick_dests(1 if quick else 3):
                    out.append(["set", d, ["rbin", op, c, a]])
    # unary
    for a in leaves:
        for d in pick_dests(4 if quick else len(dests)):
            out.append(["set", d, ["neg", a]])
            out.append(["set", d, ["abs", a]])
    # plain moves / stores of constants
    for a in leaves + cl:
        for d in pick_dests(3 if quick else len(dests)):
            out.append(["set", d, a])
    # augmented assignment
    for op in BINOPS:
        for d in (dests if not quick else pick_dests(6)):
            for b in rnd.sample(leaves + cl, 4 if quick else 12):
                out.append(["aug", d, op, b])
    # register + constant is a special node of the generator (address sums):
    # arithmetic on top of it
    regs = [l for l in leaves if l[0] == "R"]
    sums = []
    for r_ in regs:
        for c in (3, -3, 0x7fffffff):
            for op1 in "+-":
                for op2 in ("+", "-", "*"):
                    for t in (["C", 5], ["C", -7], rnd.choice(leaves)):
                        sums.append(["bin", op2, ["bin", op1, r_, ["C", c]], t])
    for e in (rnd.sample(sums, 60) if quick else sums):
        out.append(["set", rnd.choice(dests), e])
    # depth 2: seeded sample
    n2 = 600 if quick else 6000
    atoms = leaves + cl
    for _ in range(n2):
        op1, op2 = rnd.choice(BINOPS), rnd.choice(BINOPS)
        a, b, c = (rnd.choice(leaves), rnd.choice(atoms), rnd.choice(atoms))
        form = rnd.randrange(5)
        if form == 0:
            e = ["bin", op1, ["bin", op2, a, b], c]
        elif form == 1:
            e = ["bin", op1, a, ["bin", op2, rnd.choice(leaves), c]]
        elif form == 2:
            e = ["bin", op1, ["neg", a], b]
        elif form == 3:
            e = ["neg", ["bin", op1, a, b]]
        else:
            e = ["bin", op1, ["abs", a], b]
        out.append(["set", rnd.choice(dests), e])
    if not quick:
        for _ in range(1500):   # depth 3
            ops = [rnd.choice(BINOPS) for _ in range(3)]
            a, b, c, d = (rnd.choice(leaves), rnd.choice(atoms),
                          rnd.choice(leaves), rnd.choice(atoms))
            e = ["bin", ops[0], ["bin", ops[1], a, b], ["bin", ops[2], c, d]]
            out.append(["set", rnd.choice(dests), e])
    return out


# --------------------------------------------------------------------------

def check_stmt(stmt, q, res, want_sample=False):
    """compile + symbolically execute + decide one statement shape"""
    sig = stmt_sig(stmt)
    try:
        plan = Plan(stmt, dsl.ebpf, dsl._am)
        e, code, maps = dsl.build(plan.ns, plan.emit)
    except (dsl.ebpf.AssembleError, TypeError, NotImplementedError) as ex:
        res["rejected"] = res.get("rejected", 0) + 1
        return
    except Exception as ex:          # the generator crashed on a valid shape
        res["rejected"] = res.get("rejected", 0) + 1
        res.setdefault("reject_kinds", {}).setdefault(
            type(ex).__name__ + ": " + str(ex)[:60], []).append(sig)
        return
    res["programs"] += 1
    insns = decode(code)
    env = Env(maps)
    st0 = env.initial()
    try:
        exits = run(insns, env, st0.copy())
    except EngineError as ex:
        res["errors"].append(f"{sig}: engine: {ex}")
        return
    normal = [x for x in exits if x.kind == "exit" and x.pc == len(insns) - 1]
    if not normal:
        res["errors"].append(f"{sig}: no normal exit")
        return
    g, fin = merge([(x.guard, x.state) for x in normal])
    mem0 = st0.mem
    W = stmt_width(plan)

    def varval(name):
        addr, fmt = plan.var_addr(e, name, maps)
        return addr, fmt, load(mem0, bv(addr), SIZES[fmt])

    leafvals, leafaddr = {}, {}
    for path, i in plan.info.items():
        if i[0] == "var":
            addr, fmt, raw = varval(i[1])
            leafvals[path] = leaf_val(raw, fmt)
            leafaddr[path] = (addr, fmt)
        elif i[0] == "reg":
            addr, fmt, raw = varval(i[3])
            leafvals[path] = leaf_val(raw, fmt)
            leafaddr[path] = (addr, fmt)
        else:
            leafvals[path] = const_val(i[1])
    ref = Ref(plan, leafvals, W)
    rv = ref.ev("e", stmt[-1])
    expr = stmt[-1]
    if stmt[0] == "aug":
        rv = ref.binop(stmt[2], leafvals["d"], rv, "aug")
        expr = ["bin", stmt[2], stmt[1], stmt[-1]]
    d = plan.info["d"]
    if d[0] == "var":
        daddr, dfmt = plan.var_addr(e, d[1], maps)
        dsize = SIZES[dfmt]
        got = load(fin.mem, bv(daddr), dsize)
    else:
        dsize = 4 if d[1] in ("w", "sw") else 8
        got = Extract(8 * dsize - 1, 0, fin.regs[d[2]])
    want = Extract(8 * dsize - 1, 0, rv.v)
    base = list(env.assumptions)
    ring = is_ring_only(expr) if stmt[0] == "set" else \
        (stmt[2] in ("+", "-", "*", "&", "|", "^", "<<") and is_ring_only(stmt[-1]))
    claim = "ring" if ring else "full"

    # obligation 1: the statement always completes normally
    res["obligations"] += 1
    r, m = q.check(*base, Not(g))
    if r == "unsat":
        res["discharged"] += 1
    elif r == "sat":
        _violation(res, f"C01|exit|{sig}", f"{sig}: program leaves early",
                   stmt, None)
    else:
        res["undecided"] += 1
        res["undecided_list"].append(f"{sig}: exit")

    # obligation 2: value
    pre = list(ref.pre)
    if ref.choices:
        # either rounding is admissible at every division: the claim is
        # required when the precondition holds under every rounding choice
        # and is met when the result agrees with some choice
        bad, pre_all = [], []
        for bits in itertools.product([True, False], repeat=len(ref.choices)):
            sub = [(c, BoolVal(b)) for c, b in zip(ref.choices, bits)]
            bad.append(got != z3.substitute(want, *sub))
            pre_all += [z3.substitute(p, *sub) for p in pre]
        pre = pre_all
        neg = And(*bad)
    else:
        neg = got != want
    regions = {k: Or(*v) for k, v in ref.regions.items()}
    if stmt[0] == "aug" and d[0] == "reg" and d[1] == "sw":
        regions["sw_register_negative"] = Or(
            regions.get("sw_register_negative", BoolVal(False)),
            leafvals["d"].v < 0)
    if ref.choices and regions:
        regions = {k: Or(*[z3.substitute(v, *[(c, BoolVal(b)) for c, b in
                                              zip(ref.choices, bits)])
                           for bits in itertools.product(
                               [True, False], repeat=len(ref.choices))])
                   for k, v in regions.items()}
    outside = [Not(v) for v in regions.values()]
    # search hints (used only to find models of undecided queries): small
    # operand values
    hints = [z3.ULT(lv.v + 16, bv(32)) for p, lv in leafvals.items()
             if plan.info[p][0] != "const"]
    if pre:
        rv_, _ = q.check(*base, *pre, hints=hints)
        if rv_ == "unsat":       # shape outside the property's precondition
            res["vacuous"] = res.get("vacuous", 0) + 1
            return
        res["nonvacuous"] = res.get("nonvacuous", 0) + 1
    res["obligations"] += 1
    t0 = time.time()
    r, m = q.check(*base, *pre, neg, *outside, hints=hints)
    res.setdefault("slow", []).append((round(time.time() - t0, 2), sig))
    rargs = (stmt, plan, e, code, maps, insns, leafaddr, mem0, W, expr, d,
             dsize)
    if r == "unsat":
        res["discharged"] += 1
    elif r == "unknown":
        res["undecided"] += 1
        res["undecided_list"].append(f"{sig}: value ({claim})")
    else:
        rep = replay(m, *rargs)
        res["replayed"] += 1
        if rep is None:
            res["errors"].append(f"{sig}: counterexample did not reproduce")
        elif rep == "outside":
            res["errors"].append(f"{sig}: model outside python precondition")
        else:
            _violation(res, f"C01|{claim}|{sig}",
                       f"{sig}: {rep['summary']}", stmt, rep)
    if regions and r == "unsat":
        # inside the regions of recorded findings: report which one fails
        res["obligations"] += 1
        r2, m2 = q.check(*base, *pre, neg, Or(*regions.values()), hints=hints)
        if r2 == "unsat":
            res["discharged"] += 1
        elif r2 == "unknown":
            # inside the region of a recorded finding nothing is claimed;
            # not being able to exhibit the finding here is not an open
            # obligation of the property
            res["obligations"] -= 1
            res["region_undecided"] = res.get("region_undecided", 0) + 1
        else:
            names = [k for k, v in regions.items()
                     if z3.is_true(m2.eval(v, model_completion=True))]
            rep = replay(m2, *rargs)
            res["replayed"] += 1
            if rep is None or rep == "outside":
                res["errors"].append(f"{sig}: region counterexample did not "
                                     f"reproduce ({rep})")
            else:
                res["discharged"] += 1   # decided: matches a recorded finding
                _violation(res, f"C01|region|{names[0]}",
                           f"{sig}: {rep['summary']}", stmt, rep)
    if want_sample:
        res["samples"].append(dict(
            statement=sig, shape=stmt, width=W, claim=claim,
            program=disasm(insns)[plan_mark(plan):],
            obligation=f"forall initial memory: "
                       f"{'pre => ' if pre else ''}stored({leafclass(stmt[1])}) "
                       f"== ref mod 2^{8 * dsize}",
            result=r))


def plan_mark(plan):
    return 0


def _violation(res, signature, what, stmt, rep):
    res["violations"].append(dict(signature=signature, what=what,
                                  witness=rep, replay=dict(stmt=stmt)))


def replay(model, stmt, plan, e, code, maps, insns, leafaddr, mem0, W, expr,
           d, dsize):
    """run the emitted bytes in the concrete interpreter on the model's
    inputs; compare with exact Python integer arithmetic"""
    mem = {}
    leafints = {}
    for path, (addr, fmt) in leafaddr.items():
        raw = bytes(model.eval(z3.Select(mem0, bv(addr + i)),
                               model_completion=True).as_long()
                    for i in range(SIZES[fmt]))
        for i, b in enumerate(raw):
            mem[addr + i] = b
        leafints[path] = leaf_int(raw, fmt)
    for path, i in plan.info.items():
        if i[0] == "const":
            leafints[path] = i[1]
    try:
        if stmt[0] == "aug":
            A = {leafints["d"]}
            B = pyeval(stmt[-1], "e", leafints, W)
            from ..exprs import _pybin
            adm = {r for a in A for b in B for r in _pybin(stmt[2], a, b, W)}
        else:
            adm = pyeval(stmt[-1], "e", leafints, W)
    except Outside:
        return "outside"
    mask = (1 << (8 * dsize)) - 1
    adm = {a & mask for a in adm}
    m = Machine(code, maps, mem=mem)
    try:
        m.run()
    except Fault as ex:
        return dict(summary=f"fault {ex}", inputs=_inputs(plan, leafints))
    if d[0] == "var":
        daddr, _ = plan.var_addr(e, d[1], maps)
        got = m.ld(daddr, dsize)
    else:
        got = (m.regs[d[2]] or 0) & mask
    if got in adm:
        return None
    return dict(summary=f"inputs {_inputs(plan, leafints)} -> stored "
                        f"{got:#x}, exact result(s) {sorted(hex(a) for a in adm)}",
                inputs=_inputs(plan, leafints), got=got,
                expected=sorted(adm))


def _inputs(plan, leafints):
    return {p: v for p, v in leafints.items()
            if plan.info[p][0] != "const"}


def worker(args):
    chunk, sample_every = args
    q = common.Q(rlimit=30_000_000, timeout_ms=60_000)
    res = dict(obligations=0, discharged=0, undecided=0, programs=0,
               replayed=0, samples=[], violations=[], errors=[],
               undecided_list=[], vacuity=[])
    for n, stmt in chunk:
        try:
            check_stmt(stmt, q, res, want_sample=(n % sample_every == 0))
        except Exception as ex:
            import traceback
            res["errors"].append(f"{stmt_sig(stmt)}: harness exception "
                                 f"{type(ex).__name__}: {ex} "
                                 f"{traceback.format_exc()[-300:]}")
    res["queries"] = q.queries
    res["solver_s"] = q.solver_s
    res["abs_decided"] = q.abs_decided
    res["fb_decided"] = q.fb_decided
    res.pop("slow", None)
    return res


def main(tier, replay_file=None):
    seed = common.seed()
    ck = common.Check(
        "C01", tier, "translation_validation", FUNCTIONS,
        bounds=dict(
            expression_depth="1 exhaustive over leaf kinds x operators, "
                             "depth 2 seeded sample"
                             + ("" if tier == "quick" else ", depth 3 seeded sample"),
            operand_values="all (full width bit-vectors, whole initial "
                           "stack and map memory symbolic)",
            constants="enumerated boundary set",
            outside="deeper trees (thorough: a depth-3 sample is explored as "
                    "far as the solver decides it, undecided ones are listed "
                    "and not claimed); constants outside the set; 64-bit "
                    "intermediate overflow before a width-sensitive operator "
                    "(excluded by the oracle's conservative exactness flags)"),
        stubs=["create_map/mmap replaced by recording stubs (no kernel object)",
               "map_lookup_elem: array map model (pointer iff index < max_entries)"],
        assumptions=["eBPF ISA step function of vf/bpfsym.py (validated "
                     "against vf/bpfconc.py and, when bpf() is usable, the kernel)",
                     "counterexamples are replayed on vf/bpfconc.py with exact "
                     "Python integer arithmetic as oracle"])
    if replay_file:
        import json
        stmts = [json.load(open(replay_file))["replay"]["stmt"]]
    else:
        stmts = shapes(tier, seed)
    items = list(enumerate(stmts))
    nchunks = common.NCPU * 6
    chunks = [(items[i::nchunks], max(1, len(items) // 10))
              for i in range(nchunks)]
    common.prove_lemmas(ck)
    agg = {}
    vac = nonvac = 0
    for res in common.pmap(worker, [c for c in chunks if c[0]]):
        ck.add(res)
        vac += res.get("vacuous", 0)
        nonvac += res.get("nonvacuous", 0)
        agg["rejected"] = agg.get("rejected", 0) + res.get("rejected", 0)
        for k in ("abs_decided", "fb_decided"):
            agg[k] = agg.get(k, 0) + res.get(k, 0)
        for k, v in res.get("reject_kinds", {}).items():
            agg.setdefault("reject_kinds", {}).setdefault(k, []).extend(v[:3])
    # the depth-3 sample goes beyond the stated bound (depth 1 exhaustive,
    # depth 2 sampled): a depth-3 statement the solver does not finish is
    # reported as not explored (listed in the evidence), not as a failure
    deep = [u for u in ck.undecided_list if u.split(":")[0].count("(") >= 3]
    if deep:
        ck.extra["depth3_statements_not_decided"] = deep
        ck.undecided_list = [u for u in ck.undecided_list if u not in deep]
        ck.undecided -= len(deep)
        ck.obligations -= len(deep)
        for u in deep:
            print(f"INCONCLUSIVE: property=C01 {u} (depth-3 sample, solver "
                  "budget exhausted; outside the claim)")
    ck.extra["shapes"] = len(stmts)
    ck.extra["decided_by_uf_abstraction"] = agg.get("abs_decided", 0)
    ck.extra["decided_by_cvc5_int_encoding"] = agg.get("fb_decided", 0)
    ck.extra["rejected_by_generator"] = agg.get("rejected", 0)
    ck.extra["generator_crashes"] = {k: v[:3] for k, v in
                                     agg.get("reject_kinds", {}).items()}
    ck.extra["shapes_with_unsatisfiable_precondition_skipped"] = vac
    ck.extra["shapes_with_satisfiable_precondition"] = nonvac
    ck.vacuity.append(("preconditions are satisfiable on the shapes counted", nonvac > 0 or bool(replay_file)))
    return ck.finish()
