"""C19 -- process variables access their own bits and bytes on both paths.

For seeded random terminal layouts (FMMU and directly addressed terminals,
random PDO maps with bit and byte entries of every integer format, variables
linked through ProcessDesc and PacketDesc) a device reads every input
variable and writes every output variable.

* fast path: the device's program inside a real FastSyncGroup is assembled
  and the emitted bytes are executed symbolically over a symbolic frame and
  map (engine A);
* slow path: the real PacketVar.get/set (through TerminalVar) run
  symbolically on a symbolic bytearray frame (engine B).

Both are compared with ONE reference: the variable's own position is derived
independently from the datagram table of the assembled cyclic frame (data
start of the datagram addressed to the terminal, or -- for FMMU terminals --
the logical address programmed into the terminal relative to the logical
datagram), plus the PDO offset; the value is the little-endian (signed per
format) content of exactly these bytes / that bit; a write changes these and
no other byte of the frame.  Equal to the same reference on every frame
means equal to each other.
"""
import random
import struct

import z3
from z3 import And, BitVec, Extract, If, Not, Or, Select, SignExt, UGE, ULT, \
    ZeroExt

from .. import common, pyrun, pysym
from ..pysym import E

FUNCTIONS = ["ebpfcat/ebpfcat.py:PacketVar.get/set/_start/fmt_addr",
             "ebpfcat/ebpfcat.py:ProcessDesc.__get__, PacketDesc.__get__, "
             "TerminalVar.__get__/__set__",
             "ebpfcat/ebpfcat.py:SyncGroupBase.allocate, EBPFTerminal.allocate, "
             "SterilePacket.append/append_writer/append_fmmu",
             "ebpfcat/ebpfcat.py:FastSyncGroup.program, SterilePacket.activate",
             "ebpfcat/ebpf.py:Memory._set/__getitem__ (packet bit fields and "
             "formats), MemoryDesc"]
FMTS = "BbHhIiQq"
IN, OUT = 3, 2      # SyncManager values are looked up from the module


def gen_spec(seed):
    rng = random.Random(seed)
    terms = []
    for ti in range(rng.randint(1, 3)):
        t = dict(use_fmmu=rng.random() < 0.6, vars=[])
        for sm in ("IN", "OUT"):
            sz = rng.choice([0, 1, 2, 3, 5, 8, 11, 16])
            t[sm.lower() + "_sz"] = sz
            free = list(range(sz))
            bits = {}                      # byte -> bit numbers in use
            n = 0
            while n < 3:
                n += 1
                if rng.random() < 0.35:
                    cands = [o for o in range(sz)
                             if o in free or (o in bits and len(bits[o]) < 8)]
                    if not cands:
                        continue
                    off = rng.choice(cands)
                    bit = rng.choice([b for b in range(8)
                                      if b not in bits.get(off, ())])
                    bits.setdefault(off, set()).add(bit)
                    if off in free:
                        free.remove(off)
                    t["vars"].append(dict(sm=sm, off=off, size=bit,
                                          via=rng.choice(["pdo", "packet",
                                                          "override"])))
                    continue
                fmt = rng.choice(FMTS)
                w = struct.calcsize(fmt)
                cands = [o for o in free
                         if all(o + i in free for i in range(w))]
                if not cands:
                    continue
                off = rng.choice(cands)
                for i in range(w):
                    free.remove(off + i)
                t["vars"].append(dict(sm=sm, off=off, size=fmt,
                                      via=rng.choice(["pdo", "packet",
                                                      "struct"])))
        if not t["vars"]:
            t["in_sz"] = max(t["in_sz"], 2)
            t["vars"].append(dict(sm="IN", off=0, size="H", via="pdo"))
        # members of a Struct channel: the channel's input and output
        # offsets differ where the variables leave room for it
        for sm in ("IN", "OUT"):
            offs = [v["off"] for v in t["vars"]
                    if v["via"] == "struct" and v["sm"] == sm]
            t["struct_" + sm.lower()] = rng.randint(0, min(offs)) if offs else \
                rng.randint(0, 5)
        terms.append(t)
    return dict(seed=seed, terminals=terms)


def width(size):
    return 1 if isinstance(size, int) else struct.calcsize(size)


def build(ecm, eth, spec, fast):
    """terminals, device and sync group from the module's real classes"""
    SM = eth.SyncManager
    ec = ecm.SimpleEtherCat("verif0")
    terms, links = [], []
    for ti, ts in enumerate(spec["terminals"]):
        members = {}
        for vi, v in enumerate(ts["vars"]):
            if v["via"] == "struct":
                sm = SM.IN if v["sm"] == "IN" else SM.OUT
                members[f"m{vi}"] = ecm.PacketDesc(
                    sm, v["off"] - ts["struct_" + v["sm"].lower()], v["size"])
        Ch = type("Ch", (ecm.Struct,), members)
        T = type("T", (ecm.EBPFTerminal,),
                 dict(ch=Ch(ts["struct_in"], ts["struct_out"], 0)))
        t = T(ec)
        t.position = 1000 + ti
        t.name = f"t{ti}"
        t.use_fmmu = ts["use_fmmu"]
        t.pdo_in_sz, t.pdo_in_off = ts["in_sz"], 0x1100
        t.pdo_out_sz, t.pdo_out_off = ts["out_sz"], 0x1000
        t.fmmu_used = [None, None, None]
        t.pdos = {}
        for vi, v in enumerate(ts["vars"]):
            sm = SM.IN if v["sm"] == "IN" else SM.OUT
            if v["via"] == "pdo":
                t.pdos[0x6000 + vi, 1] = (sm, v["off"], v["size"])
                pv = ecm.ProcessDesc(0x6000 + vi, 1).__get__(t, type(t))
            elif v["via"] == "struct":
                pv = getattr(t.ch, f"m{vi}")
            elif v["via"] == "override":
                # the PDO map describes a whole byte; the variable is
                # declared as one bit of it (size given in ProcessDesc)
                t.pdos[0x6000 + vi, 1] = (sm, v["off"], "B")
                pv = ecm.ProcessDesc(0x6000 + vi, 1, v["size"]) \
                    .__get__(t, type(t))
            else:
                pv = ecm.PacketDesc(sm, v["off"], v["size"]).__get__(t, type(t))
            links.append((ti, vi, v, pv))
        terms.append(t)

    ns = {}
    for k, (ti, vi, v, pv) in enumerate(links):
        ns[f"pv{k}"] = ecm.TerminalVar()
        if fast:
            if isinstance(v["size"], int):
                f = "B"
            elif v["sm"] == "IN":
                f = "q" if v["size"].islower() else "Q"
            else:
                f = v["size"]
            ns[f"dv{k}"] = ecm.DeviceVar(f, write=v["sm"] == "OUT")

    def program(self):
        for k, (ti, vi, v, pv) in enumerate(links):
            if v["sm"] == "IN":
                setattr(self, f"dv{k}", getattr(self, f"pv{k}"))
        for k, (ti, vi, v, pv) in enumerate(links):
            if v["sm"] == "OUT":
                setattr(self, f"pv{k}", getattr(self, f"dv{k}"))
    ns["program"] = program
    ns["update"] = lambda self: None
    Dev = type("Dev", (ecm.Device,), ns)
    dev = Dev()
    for k, (ti, vi, v, pv) in enumerate(links):
        setattr(dev, f"pv{k}", pv)
    return ec, terms, dev, links


def regions_from_frame(eth, sg, terms, frame_offset):
    """own region of every (terminal, sync manager), derived from the
    datagram table of the assembled frame -- not from pdo_assign"""
    SM = eth.SyncManager
    raw = bytes(sg.packet.assemble(0))
    names = {c.value: c.name for c in eth.ECCmd}
    table = []
    pos = 2                              # EtherCAT header
    while pos < len(raw):
        cmd = raw[pos]
        a0, a1, ln = struct.unpack_from("<HHH", raw, pos + 2)
        n = ln & 0x7ff
        name = names.get(cmd, str(cmd))
        addr = [a0 | (a1 << 16)] if name[0] == "L" else \
            [a0 - 0x10000 if a0 >= 0x8000 and name[0] == "A" else a0, a1]
        table.append((name, pos + 10, n, addr, pos))
        pos += 12 + n
        if not ln & 0x8000:
            break
    out = {}
    for ti, t in enumerate(terms):
        for sm, sz, off in ((SM.IN, t.pdo_in_sz, t.pdo_in_off),
                            (SM.OUT, t.pdo_out_sz, t.pdo_out_off)):
            if not sz:
                continue
            found = None
            if t.use_fmmu:
                la = sg.fmmu_maps[t].get(sm)
                for name, dpos, n, addr, _ in table:
                    if name[0] != "L":
                        continue
                    base = addr[0]
                    if la is not None and base <= la and la + sz <= base + n \
                            and ((sm == SM.IN and name in ("LRD", "LRW")) or
                                 (sm == SM.OUT and name in ("LWR", "LRW"))):
                        found = dpos + (la - base)
            else:
                want = "FPRD" if sm == SM.IN else "FPWR"
                for name, dpos, n, addr, _ in table:
                    if name == want and addr[0] == t.position and \
                            addr[1] == off and n == sz:
                        found = dpos
            out[ti, sm] = (None if found is None else found + frame_offset, sz)
    return out, table


def var_places(eth, spec, regions):
    """[(k, v, start, width)] with start from the independent regions"""
    SM = eth.SyncManager
    out, k = [], 0
    for ti, ts in enumerate(spec["terminals"]):
        for v in ts["vars"]:
            sm = SM.IN if v["sm"] == "IN" else SM.OUT
            r0, sz = regions[ti, sm]
            out.append((k, ti, v, None if r0 is None else r0 + v["off"],
                        width(v["size"])))
            k += 1
    return out


def layout_problems(regions, places):
    probs = []
    items = sorted((r0, sz, key) for key, (r0, sz) in regions.items()
                   if r0 is not None)
    used = {(ti, v["sm"]) for (k, ti, v, st, w) in places}
    for key, (r0, sz) in regions.items():
        if r0 is None and (key[0], key[1].name) in used:
            probs.append(f"no datagram of the frame carries the process data "
                         f"of terminal {key[0]} ({key[1].name})")
    for (a, sa, ka), (b, sb, kb) in zip(items, items[1:]):
        if a + sa > b:
            probs.append(f"process data regions of {ka} and {kb} overlap")
    return probs


# --------------------------------------------------------------- fast path
def fast_path(seed, q, res):
    from .. import dsl, fastgroup
    from ..bpfsym import Env, PKT, bv, decode, load, merge, run
    import ebpfcat.ebpfcat as ecm
    import ebpfcat.ethercat as eth
    spec = gen_spec(seed)
    dsl.new_registry()
    ec, terms, dev, links = build(ecm, eth, spec, fast=True)
    name = f"layout seed {seed} (fast path)"
    try:
        if seed % 3 == 0:
            # the same device first served in another group, behind a
            # terminal that shifts every region of the frame: nothing of
            # that group's layout may survive into the group checked below
            SM = eth.SyncManager
            tp = ecm.EBPFTerminal(ec)
            tp.position, tp.name, tp.use_fmmu = 999, "tpre", False
            tp.pdo_in_sz, tp.pdo_in_off = 6, 0x1100
            tp.pdo_out_sz, tp.pdo_out_off = 4, 0x1000
            tp.fmmu_used = [None, None, None]
            tp.pdos = {}

            class Pre(ecm.Device):
                a = ecm.TerminalVar()
                b = ecm.TerminalVar()
                update = lambda self: None

                def program(self):
                    self.b = self.a
            pre = Pre()
            pre.a = ecm.PacketDesc(SM.IN, 2, "H").__get__(tp, type(tp))
            pre.b = ecm.PacketDesc(SM.OUT, 0, "H").__get__(tp, type(tp))
            sg0 = ecm.FastSyncGroup(ec, [pre, dev])
            sg0.allocate()
            sg0.assemble()
            dsl.new_registry()        # only the maps of the group below
            for t in terms:
                t.fmmu_used = [None, None, None]
            res["regrouped"] = res.get("regrouped", 0) + 1
        sg = ecm.FastSyncGroup(ec, [dev])
        sg.allocate()
        code = sg.assemble()
    except Exception as ex:
        res["violations"].append(dict(
            signature=f"C19|fast group cannot be generated: {type(ex).__name__}",
            what=f"{name}: generating the fast sync group fails with "
                 f"{type(ex).__name__}: {ex}", witness=dict(spec=spec),
            replay=dict(seed=seed)))
        return
    maps = list(dsl.REG.maps)
    res["programs"] += 1
    regions, table = regions_from_frame(eth, sg, terms, 14)
    places = var_places(eth, spec, regions)
    for p in layout_problems(regions, places):
        res["obligations"] += 1
        res["violations"].append(dict(signature=f"C19|layout: {p[:40]}",
                                      what=f"{name}: {p}",
                                      witness=dict(spec=spec),
                                      replay=dict(seed=seed)))
    places = [pl for pl in places if pl[3] is not None or
              res["violations"]]
    if any(pl[3] is None for pl in places):
        return
    insns = decode(code)
    env = Env(maps, pkt_max=1600)
    st0 = env.initial()
    exits = run(insns, env, st0.copy())
    g, fin = merge([(x.guard, x.state) for x in exits if x.kind == "exit"])
    mem0 = st0.mem
    mp = maps[0].base
    need = sg.packet.size + 14
    plen = env.pkt_len
    wkc = load(mem0, bv(mp + sg.__dict__["wkc_errors"]), 4)
    processed = And(UGE(plen, bv(need)), wkc != 0)
    base = list(env.assumptions) + [g, processed]
    obl = []
    written = []
    for (k, ti, v, start, w) in places:
        a = PKT + start
        slot = mp + dev.__dict__[f"dv{k}"]
        if isinstance(v["size"], int):
            bit = v["size"]
            if v["sm"] == "IN":
                got = load(fin.mem, bv(slot), 1)
                want = Extract(bit, bit, load(mem0, bv(a), 1)) == 1
                obl.append((f"var {k} (bit {bit} at {start}): program reads "
                            "its own bit", [(got != 0) != want]))
            else:
                src = load(mem0, bv(slot), 1)
                old = load(mem0, bv(a), 1)
                exp = If(src != 0, old | z3.BitVecVal(1 << bit, 8),
                         old & z3.BitVecVal(~(1 << bit) & 0xff, 8))
                obl.append((f"var {k} (bit {bit} at {start}): program writes "
                            "its own bit only", [load(fin.mem, bv(a), 1) != exp]))
                written.append((start, 1, k))
        else:
            if v["sm"] == "IN":
                raw = load(mem0, bv(a), w)
                ext = (SignExt if v["size"].islower() else ZeroExt)(64 - 8 * w, raw) \
                    if w < 8 else raw
                got = load(fin.mem, bv(slot), 8)
                obl.append((f"var {k} ({v['size']} at {start}): program reads "
                            "its own bytes with the format's sign",
                            [got != ext]))
            else:
                src = load(mem0, bv(slot), w)
                obl.append((f"var {k} ({v['size']} at {start}): program "
                            "writes its own bytes",
                            [load(fin.mem, bv(a), w) != src]))
                written.append((start, w, k))
    # frame condition: any other byte keeps its value, except what the frame
    # re-activation rewrites (command bytes and working counters)
    allowed = list(written)
    for start, stop, cmd in sg.packet.on_the_fly:
        allowed.append((start + 14, 1, "cmd"))
        allowed.append((stop + 14 - 2, 2, "wkc"))
    j = BitVec("c19_j", 64)
    outside = [Or(ULT(j, bv(s)), UGE(j, bv(s + w))) for s, w, _ in allowed]
    # several output bits may share a byte: that byte is covered bit-wise above
    obl.append(("no other byte of the frame changes",
                [ULT(j, plen)] + outside +
                [Select(fin.mem, bv(PKT) + j) != Select(mem0, bv(PKT) + j)]))
    shared = {}
    for s, w, k in written:
        for b in range(s, s + w):
            shared.setdefault(b, []).append(k)
    multi = {b: ks for b, ks in shared.items() if len(ks) > 1}
    for pc, gg, ok, text in env.safety:
        obl.append((f"pc {pc}: {text} inside region", [gg, Not(ok)]))
    for oname, fs in obl:
        if multi and ("writes" in oname) and any(
                f"var {k} " in oname for ks in multi.values() for k in ks):
            # two variables of the layout share a byte (two bits of one
            # byte): checked together below
            continue
        res["obligations"] += 1
        r, mdl = q.check(*(base if not oname.startswith("pc ") else
                           list(env.assumptions)), *fs)
        if r == "unsat":
            res["discharged"] += 1
        elif r == "unknown":
            res["undecided"] += 1
            res["undecided_list"].append(f"{name}: {oname}")
        else:
            rep = replay_fast(mdl, spec, code, maps, mem0, plen, places, dev,
                              sg, allowed)
            res["replayed"] += 1
            if rep is None:
                res["errors"].append(f"{name}: '{oname}' counterexample did "
                                     "not reproduce")
            else:
                res["violations"].append(dict(
                    signature="C19|fast|" + oname.split(":")[-1].strip()[:60],
                    what=f"{name}: {oname} fails: {rep}",
                    witness=dict(spec=spec, summary=rep),
                    replay=dict(seed=seed)))
    for b, ks in multi.items():
        # bits sharing one byte: final byte = old with each own bit replaced
        res["obligations"] += 1
        old = load(mem0, bv(PKT + b), 1)
        exp = old
        for (k, ti, v, start, w) in places:
            if k in ks and isinstance(v["size"], int):
                src = load(mem0, bv(mp + dev.__dict__[f"dv{k}"]), 1)
                m = 1 << v["size"]
                exp = If(src != 0, exp | z3.BitVecVal(m, 8),
                         exp & z3.BitVecVal(~m & 0xff, 8))
        if not all(isinstance(places[k][2]["size"], int) for k in ks):
            res["discharged"] += 1      # overlapping byte formats: generator
            continue                    # never produces them
        r, mdl = q.check(*base, load(fin.mem, bv(PKT + b), 1) != exp)
        if r == "unsat":
            res["discharged"] += 1
        elif r == "unknown":
            res["undecided"] += 1
            res["undecided_list"].append(f"{name}: shared byte {b}")
        else:
            res["violations"].append(dict(
                signature="C19|fast|bits sharing a byte",
                what=f"{name}: output bits sharing byte {b} are not written "
                     "independently", witness=dict(spec=spec),
                replay=dict(seed=seed)))
    r, _ = q.check(*base)
    res["vacuity"].append((f"{name}: processing path reachable", r == "sat"))
    res["samples"].append(dict(
        seed=seed, path="fast", instructions=len(insns),
        terminals=[(t["use_fmmu"], t["in_sz"], t["out_sz"], len(t["vars"]))
                   for t in spec["terminals"]],
        variables=[(pl[2]["sm"], pl[2]["size"], pl[3]) for pl in places][:8]))


def replay_fast(model, spec, code, maps, mem0, plen, places, dev, sg, allowed):
    """run the emitted bytes concretely and compare every variable with the
    Python-integer reference"""
    from ..bpfsym import PKT, bv
    from ..bpfconc import Fault, Machine
    ev = lambda x: model.eval(x, model_completion=True)
    n = ev(plen).as_long()
    pkt = bytes(ev(Select(mem0, bv(PKT + i))).as_long() for i in range(n))
    mp = maps[0]
    mem = {mp.base + i: ev(Select(mem0, bv(mp.base + i))).as_long()
           for i in range(mp.area)}
    mach = Machine(code, maps, packet=pkt, mem=mem)
    try:
        mach.run()
    except Fault as ex:
        return f"fault {ex}"
    probs = []
    changed = set()
    for (k, ti, v, start, w) in places:
        slot = mp.base + dev.__dict__[f"dv{k}"]
        if isinstance(v["size"], int):
            m = 1 << v["size"]
            if v["sm"] == "IN":
                if bool(mach.ld(slot, 1)) != bool(pkt[start] & m):
                    probs.append(f"var {k}: read {mach.ld(slot, 1)} for byte "
                                 f"{pkt[start]:#x} bit {v['size']}")
            else:
                src = mem[slot]
                if bool(mach.ld(PKT + start, 1) & m) != bool(src):
                    probs.append(f"var {k}: bit not written")
                changed.add(start)
        else:
            if v["sm"] == "IN":
                want = int.from_bytes(pkt[start:start + w], "little",
                                      signed=v["size"].islower())
                got = mach.ld(slot, 8)
                if got != want % 2 ** 64:
                    probs.append(f"var {k} ({v['size']}@{start}): program "
                                 f"read {got:#x}, frame holds {want}")
            else:
                src = bytes(mem[slot + i] for i in range(w))
                got = bytes(mach.ld(PKT + start + i, 1) for i in range(w))
                if got != src:
                    probs.append(f"var {k} ({v['size']}@{start}): frame gets "
                                 f"{got.hex()}, value {src.hex()}")
                changed.update(range(start, start + w))
    ok = set()
    for s, w, _ in allowed:
        ok.update(range(s, s + w))
    for i in range(n):
        if i not in ok and mach.ld(PKT + i, 1) != pkt[i]:
            probs.append(f"byte {i} of the frame changed "
                         f"{pkt[i]:#x} -> {mach.ld(PKT + i, 1):#x}")
            break
    return "; ".join(probs[:3]) or None


# --------------------------------------------------------------- slow path
def ref_value(frame, start, w, signed):
    v = 0
    for i in range(w):
        v = v + (frame[start + i] << (8 * i))
    if signed:
        v = pysym.ite(v >= (1 << (8 * w - 1)), v - (1 << (8 * w)), v)
    return v


def slow_harness(seed):
    def harness():
        ecm = pysym.module("ebpfcat")
        eth = pysym.module("ethercat")
        spec = gen_spec(seed)
        ec, terms, dev, links = build(ecm, eth, spec, fast=False)
        sg = ecm.SyncGroup(ec, [dev])
        sg.allocate()
        regions, table = regions_from_frame(eth, sg, terms, 0)
        places = var_places(eth, spec, regions)
        for p in layout_problems(regions, places):
            E.fail(f"layout: {p}")
        if any(pl[3] is None for pl in places):
            return
        n = sg.packet.size
        frame = E.bytes("frame", n)
        pysym.SYM_BYTEARRAYS = True
        try:
            sg.current_data = _bytearray(frame)
            for (k, ti, v, start, w) in places:
                if v["sm"] != "IN":
                    continue
                got = getattr(dev, f"pv{k}")
                if isinstance(v["size"], int):
                    want = (frame[start] & (1 << v["size"])) != 0
                    E.prove(got == want,
                            f"var {k} (bit {v['size']} at {start}): Python "
                            "reads its own bit")
                else:
                    want = ref_value(frame, start, w, v["size"].islower())
                    E.prove(got == want, f"var {k} ({v['size']} at {start}): "
                                         "Python reads its own bytes with the "
                                         "format's sign")
            expect = {}
            for (k, ti, v, start, w) in places:
                if v["sm"] != "OUT":
                    continue
                if isinstance(v["size"], int):
                    val = E.bool(f"val{k}")
                    setattr(dev, f"pv{k}", val)
                    m = 1 << v["size"]
                    old = expect.get(start, frame[start])
                    expect[start] = pysym.ite(val, old | m, old & (~m & 0xff))
                else:
                    if v["size"] == "Q":     # engine integers are 64-bit
                        val = E.int(f"val{k}", 0, 2 ** 63 - 1)
                    else:
                        val = E.int(f"val{k}", bits=8 * w,
                                    signed=v["size"].islower())
                    setattr(dev, f"pv{k}", val)
                    for i in range(w):
                        expect[start + i] = (val >> (8 * i)) & 0xff
            data = sg.current_data
            good = True
            for i in range(n):
                good = pysym.land(good, data[i] == expect.get(i, frame[i]))
            E.prove(good, "after the writes every variable's own bytes / bit "
                          "hold its value and no other byte of the frame "
                          "changed")
        finally:
            pysym.SYM_BYTEARRAYS = False
    return harness


def _bytearray(frame):
    if E.concrete:
        return bytearray(frame)
    return pysym.SByteArray(frame)


def slow_worker(seed):
    res = pyrun.new_res()
    name = f"layout seed {seed} (slow path)"
    try:
        st = pyrun.run("C19", name, slow_harness(seed), res, maxtime=300,
                       sig=lambda w: "slow|" + w.split(":")[-1].strip()[:60])
        res["samples"].append(dict(harness=name, **{
            k: st[k] for k in ("paths", "aborted", "decisions", "obligations",
                               "queries", "wall")}))
    except Exception as ex:
        import traceback
        res["errors"].append(f"{name}: harness exception {ex} "
                             f"{traceback.format_exc()[-600:]}")
    return res


def fast_worker(seed):
    res = dict(obligations=0, discharged=0, undecided=0, programs=0,
               replayed=0, violations=[], errors=[], undecided_list=[],
               samples=[], vacuity=[], queries=0, solver_s=0.0)
    q = common.Q(rlimit=30_000_000, timeout_ms=60_000)
    try:
        fast_path(seed, q, res)
    except Exception as ex:
        import traceback
        res["errors"].append(f"seed {seed} fast path: {type(ex).__name__} {ex} "
                             f"{traceback.format_exc()[-600:]}")
    res["queries"], res["solver_s"] = q.queries, q.solver_s
    return res


def worker(args):
    kind, seed = args
    return fast_worker(seed) if kind == "fast" else slow_worker(seed)


def main(tier, replay_file=None):
    n = 12 if tier == "quick" else 150
    ck = common.Check(
        "C19", tier, "translation_validation", FUNCTIONS,
        bounds=dict(layouts=f"{n} seeded random layouts (seed base "
                            f"{common.seed()}): 1-3 terminals, FMMU or direct, "
                            "process images of 0..16 bytes, up to 3 variables "
                            "per direction: bits 0..7 and formats BbHhIiQq at "
                            "random offsets, via ProcessDesc or PacketDesc",
                    per_layout="whole frame, map contents, written values and "
                               "frame length symbolic",
                    outside="formats other than the integer ones; more than one "
                            "device per group; values >= 2^63 written to Q "
                            "variables on the slow path"),
        stubs=["xdp_md context, array map model (fast path)",
               "symbolic bytearray for SyncGroup.current_data (slow path)"],
        assumptions=["a variable's own position is derived from the datagram "
                     "table of the assembled frame and the logical addresses "
                     "programmed into FMMU terminals, not from pdo_assign"])
    base = common.seed()
    items = [(k, base * 1000 + i) for i in range(n) for k in ("fast", "slow")]
    for res in common.pmap(worker, items):
        ck.add(res)
    return ck.finish()
