"""C29 -- process-based sync groups share device variables correctly.

Seeded random device classes (with inheritance) declare DeviceVars of random
formats; several instances are put into a real ProcessSyncGroup whose shared
memory (multiprocessing Array) is a symbolic byte array.  The spawned child
is modelled as what `spawn` gives it: a deep copy of the group and its
devices that shares only the Arrays.  Symbolic values are written through
the real descriptors on one side and read on the other.
"""
import copy
import random
import struct

from .. import common, pyrun, pysym
from ..pysym import E

FUNCTIONS = ["ebpfcat/ebpf.py:SimulatedEBPF.__init__",
             "ebpfcat/ebpfcat.py:DeviceVar.__get__/__set__",
             "ebpfcat/ebpfcat.py:ProcessSyncGroup.__init__/get_array",
             "ebpfcat/arraymap.py:ArrayMap.collect, "
             "ArrayGlobalVarDesc.__get__/__set__/unpack/fmt_addr"]
FMTS = ["b", "B", "h", "H", "i", "I", "q", "Q", "x", "2H", "Bh", "3B"]
DECIMALS = [0.0, 2.5, -0.125, 1234.75]      # exact in binary: decimal
                                            # exactness is C02's subject


def gen_spec(seed):
    rng = random.Random(seed)
    classes = []
    for ci in range(rng.randint(1, 2)):
        base = rng.choice([None] + list(range(ci)))
        n = rng.randint(1, 4)
        classes.append(dict(base=base, vars=[(f"v{ci}_{j}", rng.choice(FMTS))
                                             for j in range(n)]))
    insts = [rng.randrange(len(classes)) for _ in range(rng.randint(2, 3))]
    return dict(seed=seed, classes=classes, instances=insts)


def all_vars(spec, ci):
    c = spec["classes"][ci]
    out = [] if c["base"] is None else all_vars(spec, c["base"])
    return out + c["vars"]


class FakeArray:
    def __init__(self, n):
        self.buf = pysym.SByteArray(pysym.SBytes.of(bytes(n))) \
            if not E.concrete else bytearray(n)

    def get_obj(self):
        return self.buf


class FakeCtx:
    @staticmethod
    def Array(kind, n):
        return FakeArray(n)

    @staticmethod
    def Value(kind):
        class V:
            value = 0
        return V()


def fresh(name, fmt):
    """a symbolic value of the format (tuple for multi-element formats)"""
    if fmt == "x":
        return DECIMALS[sum(map(ord, name)) % len(DECIMALS)]
    vals = []
    letters = []
    for ch in fmt:
        if ch.isdigit():
            rep = int(ch)
            continue
        letters += [ch] * (locals().get("rep") or 1)
        rep = None
    for i, ch in enumerate(letters):
        w = struct.calcsize(ch)
        if ch == "Q":
            vals.append(E.int(f"{name}_{i}", 0, 2 ** 63 - 1))
        else:
            vals.append(E.int(f"{name}_{i}", bits=8 * w, signed=ch.islower()))
    return vals[0] if len(vals) == 1 else tuple(vals)


def same(a, b):
    if isinstance(a, tuple) or isinstance(b, tuple):
        if not (isinstance(a, tuple) and isinstance(b, tuple)
                and len(a) == len(b)):
            return False
        return pysym.land(*[x == y for x, y in zip(a, b)])
    return a == b


def make_harness(seed):
    def harness():
        ecm = pysym.module("ebpfcat")
        spec = gen_spec(seed)
        saved = ecm.get_context
        ecm.get_context = lambda kind: FakeCtx
        pysym.SYM_BYTEARRAYS = True
        try:
            classes = []
            for ci, c in enumerate(spec["classes"]):
                ns = {n: ecm.DeviceVar(f, write=True) for n, f in c["vars"]}
                ns["update"] = lambda self: None
                base = ecm.Device if c["base"] is None else classes[c["base"]]
                classes.append(type(f"Dev{ci}", (base,), ns))
            devs = [classes[ci]() for ci in spec["instances"]]
            ec = ecm.ParallelEtherCat("verif0")
            sg = ecm.ProcessSyncGroup(ec, devs)
            arrays = [v for v in sg.__dict__.values()
                      if isinstance(v, (pysym.SByteArray, bytearray))]
            sizes = [len(a) for a in arrays]
            # every variable lies inside the shared array (a ctypes array
            # refuses accesses beyond its end; the model would just grow)
            spans = []
            for i, ci in enumerate(spec["instances"]):
                for n, f in all_vars(spec, ci):
                    w = 8 if f == "x" else struct.calcsize(f)
                    pos = devs[i].__dict__.get(n)
                    E.prove(pos is not None and 0 <= pos and
                            pos + w <= max(sizes or [0]),
                            f"a {f} variable lies inside the shared array")
                    if pos is not None:
                        spans.append((pos, w, i, n))
            spans.sort()
            E.prove(all(a[0] + a[1] <= b[0] for a, b in zip(spans, spans[1:])),
                    "variables of all devices occupy disjoint bytes")
            memo = {id(a): a for a in arrays}
            memo[id(FakeCtx)] = FakeCtx
            child_sg, child_devs = copy.deepcopy((sg, devs), memo)
            cells = [(i, n, f) for i, ci in enumerate(spec["instances"])
                     for n, f in all_vars(spec, ci)]
            vals = {}
            for (i, n, f) in cells:                 # parent writes
                vals[i, n] = fresh(f"p{i}_{n}", f)
                setattr(devs[i], n, vals[i, n])
            for (i, n, f) in cells:                 # child reads
                E.prove(same(getattr(child_devs[i], n), vals[i, n]),
                        f"a {f} variable written in the controlling process "
                        "is read unchanged in the group's process")
            for k, (i, n, f) in enumerate(cells):   # child writes some
                if k % 2 == 0:
                    vals[i, n] = fresh(f"c{i}_{n}", f)
                    setattr(child_devs[i], n, vals[i, n])
            for (i, n, f) in cells:                 # parent reads all
                E.prove(same(getattr(devs[i], n), vals[i, n]),
                        f"a {f} variable written in the group's process is "
                        "read unchanged in the controlling process and no "
                        "other variable changed")
            E.prove([len(a) for a in arrays] == sizes,
                    "no access went beyond the end of a shared array")
        finally:
            ecm.get_context = saved
            pysym.SYM_BYTEARRAYS = False
    return harness


def worker(seed):
    res = pyrun.new_res()
    spec = gen_spec(seed)
    name = f"device set seed {seed}"
    try:
        st = pyrun.run("C29", name, make_harness(seed), res, maxtime=300,
                       sig=lambda w: w.split(" with inputs")[0].strip()[:90])
        res["samples"].append(dict(
            harness=name, classes=[(c["base"], [f for _, f in c["vars"]])
                                   for c in spec["classes"]],
            instances=spec["instances"], **{
                k: st[k] for k in ("paths", "aborted", "decisions",
                                   "obligations", "queries", "wall")}))
    except Exception as ex:
        import traceback
        res["errors"].append(f"{name}: harness exception {ex} "
                             f"{traceback.format_exc()[-600:]}")
    return res


def main(tier, replay_file=None):
    n = 40 if tier == "quick" else 300
    ck = common.Check(
        "C29", tier, "model_checking", FUNCTIONS,
        bounds=dict(devices=f"{n} seeded device sets (seed base "
                            f"{common.seed()}): 1-2 device classes (optionally "
                            "inheriting), 1-4 DeviceVars each of formats "
                            f"{FMTS}, 2-3 instances",
                    values="every written value symbolic over the whole range "
                           "of its format (Q below 2^63; x from binary-exact "
                           "decimals, decimal exactness is C02)",
                    outside="pickling itself (the child is a deep copy that "
                            "shares the Arrays); concurrent access"),
        stubs=["multiprocessing context: Array = symbolic byte array, "
               "no process is spawned"])
    base = common.seed()
    for res in common.pmap(worker, [base * 1000 + i for i in range(n)]):
        ck.add(res)
    return ck.finish()
