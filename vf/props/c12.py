"""C12 -- every datagram request gets exactly its own response.

The real EtherCat.roundtrip / sendloop / process_packet / roundtrip_packet /
datagram_received run on the deterministic event loop against a frame-level
bus stub.  Request payload lengths (0..1600) and contents, the returned data
and working counters, which frames are lost / duplicated, which request is
cancelled and when, the frame indices drawn by `randint` (fresh or colliding)
and (bounded) ready-queue reorderings are decided by the engine.
"""
import asyncio

from .. import common, pyrun, pysym
from ..pysym import E, SInt, land, lnot, lor

FUNCTIONS = ["ebpfcat/ethercat.py:EtherCat.roundtrip",
             "ebpfcat/ethercat.py:EtherCat.sendloop",
             "ebpfcat/ethercat.py:EtherCat.process_packet",
             "ebpfcat/ethercat.py:EtherCat.roundtrip_packet",
             "ebpfcat/ethercat.py:EtherCat.datagram_received",
             "ebpfcat/ethercat.py:Packet.append/assemble/full"]


class Stall(BaseException):
    """the master spins without yielding to the event loop"""


class Transport:
    def __init__(self):
        self.sent = []

    def sendto(self, data, addr):
        self.sent.append(data)


def walk(f):
    out = []
    pos = 16
    more = True
    n = 0
    total = pysym.sym_len(f)
    while more:
        n += 1
        if n > 20:
            raise pysym.Unwind("frame walker")
        if bool(pos + 12 > total):
            break
        cmd, idx, lo, hi, ln, irq = pysym.sym_unpack_from("<BBhHHH", f, pos)
        ln_ = ln & 0x7ff
        out.append(dict(cmd=cmd, idx=idx, adp=lo, ado=hi, n=ln_, pos=pos))
        more = bool((ln >> 15) != 0)
        pos = pos + 12 + ln_
    return out


def make_harness(k, oversize, faults, cancel, reorder):
    def harness():
        eth = pysym.module("ethercat")
        sym = not E.concrete
        counter = dict(n=0, spins=0, idx=0)
        used_idx = []

        def randint(a, b):
            # adversarial within range: a fresh value or one already in use
            counter["idx"] += 1
            if used_idx and counter["idx"] <= 3 and \
                    bool(E.bool(f"index_collides{counter['idx']}")):
                return used_idx[0]
            v = 2000 + counter["idx"]
            used_idx.append(v)
            return v

        real_ensure = asyncio.ensure_future

        def ensure_future(c, **kw):
            counter["spins"] += 1
            if counter["spins"] > 60:
                c.close()
                raise Stall("sendloop creates tasks without ever yielding")
            return real_ensure(c, **kw)
        saved = (eth.randint, eth.ensure_future)
        eth.randint, eth.ensure_future = randint, ensure_future
        reqs = []
        out = {}
        try:
            async def main():
                ec = eth.EtherCat("verif0")
                ec.send_queue = asyncio.Queue()
                submitted = out["submitted"] = []
                real_put = ec.send_queue.put_nowait

                plan_cancel = {}

                def put_nowait(item):
                    no = item[3] - 100                  # request number
                    submitted.append(no)
                    r = real_put(item)
                    if plan_cancel.get("who") == no and plan_cancel["when"] == 2:
                        # cancelled right after queueing, before sendloop
                        # takes the datagram off the queue
                        reqs[no]["task"].cancel()
                        reqs[no]["cancelled"] = "queued"
                    return r
                ec.send_queue.put_nowait = put_nowait
                tr = ec.transport = Transport()
                loop_task = real_ensure(ec.sendloop())
                for i in range(k):
                    big = oversize and i == 0
                    n = E.int(f"len{i}", 1473 if big else 0, 1600 if big else 1472)
                    d = E.bytes(f"req{i}", n)
                    t = real_ensure(ec.roundtrip(eth.ECCmd.FPRD, 100 + i, 0x10 * i,
                                                 data=d))
                    reqs.append(dict(i=i, n=n, d=d, task=t))
                who = E.choose(k + 1, "which request is cancelled") - 1 \
                    if cancel else -1
                when = E.choose(3, "cancel before start / after sending / "
                                   "right after queueing") if who >= 0 else 0
                plan_cancel.update(who=who, when=when)
                if who >= 0 and when == 0:
                    reqs[who]["task"].cancel()
                    reqs[who]["cancelled"] = "before"

                async def settle():
                    for _ in range(12):
                        counter["spins"] = 0
                        await asyncio.sleep(0)
                await settle()
                if who >= 0 and when == 1:
                    reqs[who]["task"].cancel()
                    reqs[who]["cancelled"] = "after"
                    await asyncio.sleep(0)
                frames = list(tr.sent)
                out["frames"] = frames
                out["loop_task"] = loop_task
                # the bus answers
                plan = []
                for fi, f in enumerate(frames):
                    act = E.choose(3 if faults else 1, f"bus action frame {fi}")
                    plan.append(act)          # 0 deliver, 1 lose, 2 duplicate
                    dgs = walk(f)
                    resp = f[:16]
                    info = []
                    for di, dg in enumerate(dgs):
                        nd = E.bytes(f"resp{fi}_{di}", dg["n"])
                        wkc = E.int(f"wkc{fi}_{di}", bits=16)
                        resp = resp + f[dg["pos"]:dg["pos"] + 10] + nd \
                            + pysym.sym_pack("<H", wkc)
                        info.append(dict(dg=dg, data=nd, wkc=wkc))
                    out.setdefault("resp", []).append(info)
                    if act != 1:
                        ec.datagram_received(resp, None)
                        if act == 2:
                            await settle()
                            ec.datagram_received(resp, None)
                    await settle()
                out["plan"] = plan
                # task states before the harness tears the loop down
                for r in reqs:
                    t = r["task"]
                    r["done"], r["was_cancelled"] = t.done(), t.cancelled()
                    r["exc"] = t.exception() if t.done() and not t.cancelled() \
                        else None
                    r["result"] = t.result() if t.done() and not t.cancelled() \
                        and r["exc"] is None else None
                out["loop_done"] = loop_task.done()
                out["loop_exc"] = loop_task.exception() \
                    if loop_task.done() and not loop_task.cancelled() else None
                loop_task.cancel()
                out["ec"] = ec
            pysym.run_async(main, reorder=reorder, max_steps=20000)
        finally:
            eth.randint, eth.ensure_future = saved
        lt = out.get("loop_task")
        if "plan" in out:
            stalled = isinstance(out["loop_exc"], Stall)
        else:
            stalled = lt is not None and lt.done() and not lt.cancelled() and \
                isinstance(lt.exception(), Stall)
        E.prove(not stalled, "a request that can never fit into a frame fails "
                             "instead of stalling the master")
        if stalled or "plan" not in out:
            return
        if out["loop_done"]:
            E.fail(f"sendloop ended ({type(out['loop_exc']).__name__})")
        # locate every request's datagram in the sent frames
        seen = {}
        order = []
        for fi, info in enumerate(out.get("resp", [])):
            for di, x in enumerate(info):
                for r in reqs:
                    if bool(land(x["dg"]["adp"] == 100 + r["i"],
                                 x["dg"]["ado"] == 0x10 * r["i"],
                                 x["dg"]["cmd"] == 4)):
                        seen.setdefault(r["i"], []).append((fi, di, x))
                        order.append(r["i"])
        for r in reqs:
            i = r["i"]
            fits = bool(r["n"] <= 1472)
            locs = seen.get(i, [])
            was_submitted = i in out["submitted"]
            if fits and was_submitted:
                E.prove(len(locs) == 1, f"request {i} is sent exactly once "
                                        f"(found {len(locs)} times)")
            elif fits:
                # cancelled before its coroutine ever ran: never submitted
                E.prove(len(locs) == 0 and r.get("cancelled") == "before",
                        f"request {i} that was never submitted is not sent")
            else:
                E.prove(len(locs) == 0, f"oversize request {i} is never sent")
            if not fits:
                E.prove(r["done"] and not r["was_cancelled"]
                        and r["exc"] is not None
                        if "cancelled" not in r else True,
                        f"request {i} can never fit and fails")
                continue
            if len(locs) != 1:
                continue
            fi, di, x = locs[0]
            E.prove(pysym.bytes_equal(
                out["frames"][fi][x["dg"]["pos"] + 10:
                                  x["dg"]["pos"] + 10 + x["dg"]["n"]], r["d"]),
                    f"request {i}: its payload is what was sent")
            lost = out["plan"][fi] == 1
            if "cancelled" in r:
                E.prove(r["was_cancelled"], f"cancelled request {i} ends cancelled")
                continue
            if lost:
                E.prove(not r["done"], f"request {i}: stays pending when its "
                                       "frame is lost")
                continue
            E.prove(r["done"], f"request {i} completes when its frame returns")
            if not r["done"]:
                continue
            if bool(x["wkc"] == 0):
                E.prove(not r["was_cancelled"] and
                        isinstance(r["exc"], eth.EtherCatError),
                        f"request {i}: unprocessed datagram (working counter "
                        "0) gives EtherCatError"
                        + ("" if isinstance(r["exc"], eth.EtherCatError)
                           else f" (got {type(r['exc']).__name__})"))
            else:
                ok = not r["was_cancelled"] and r["exc"] is None
                E.prove(ok, f"request {i}: completes normally whatever happens "
                            "to the other requests"
                        + ("" if ok else f" (got {type(r['exc']).__name__ if not r['was_cancelled'] else 'cancelled'})"))
                if ok:
                    E.prove(pysym.bytes_equal(r["result"], x["data"]),
                            f"request {i}: result is the bus data at its own "
                            "datagram position")
        sub = [i for i in out["submitted"] if i in order]
        E.prove(order == sub, f"requests are sent in submission order "
                              f"(submitted {sub}, sent {order})")
    return harness


def shapes(tier):
    out = []
    # (k, oversize, faults, cancel, reorder)
    out.append((1, False, True, True, 0))
    out.append((2, False, False, True, 0))
    out.append((2, False, True, False, 0))
    out.append((2, True, False, False, 0))
    out.append((1, True, False, False, 0))
    out.append((2, True, False, True, 0))
    if tier != "quick":
        # (three requests with a cancellation or with frame faults exhaust
        # the path budget of 15 minutes; three plain ones and three with an
        # oversize first one do not)
        out.append((3, False, False, False, 0))
        out.append((3, True, False, True, 0))
        out.append((2, False, True, True, 0))
    return out


def worker(args):
    k, oversize, faults, cancel, reorder = args
    res = pyrun.new_res()
    name = (f"{k} concurrent request(s)" + (", first one oversize" if oversize else "")
            + (", frame loss/duplication" if faults else "")
            + (", one cancellation" if cancel else "")
            + (f", {reorder} ready-queue reordering(s)" if reorder else ""))
    try:
        st = pyrun.run("C12", name, make_harness(k, oversize, faults, cancel,
                                                 reorder), res, maxtime=900,
                       sig=lambda w: w.split(":")[-1].split("(")[0].strip()[:70])
        res["samples"].append(dict(harness=name, **{
            kk: st[kk] for kk in ("paths", "aborted", "decisions",
                                  "obligations", "queries", "wall")}))
    except Exception as ex:
        import traceback
        res["errors"].append(f"{name}: harness exception {ex} "
                             f"{traceback.format_exc()[-500:]}")
    return res


def main(tier, replay_file=None):
    ck = common.Check(
        "C12", tier, "model_checking", FUNCTIONS,
        bounds=dict(requests="1..2 concurrent requests with every combination "
                             "of faults / cancellation; thorough: also 3 "
                             "(plain, and with an oversize first request and "
                             "a cancellation); payload "
                             "length 0..1472 symbolic (one request optionally "
                             "1473..1600: can never fit), content symbolic",
                    bus="per frame: deliver / lose / duplicate (solver choice); "
                        "returned data and 16-bit working counters symbolic",
                    cancellation="any one request: before its coroutine starts, right "
                                 "after it was queued, or after it was sent",
                    scheduling="asyncio's FIFO ready queue (its documented "
                               "contract); interleavings arise from the choice "
                               "of cancellation point, bus action and frame "
                               "index",
                    frame_index="randint stub: fresh or colliding with an index "
                                "in use (solver choice)",
                    outside="more than 3 requests; 3 requests with frame faults "
                            "(path budget); delayed frames overtaking each "
                            "other"),
        stubs=["transport.sendto records frames; responses are injected "
               "through the real datagram_received",
               "random.randint adversarial within its range",
               "ensure_future counts calls per loop step to detect a master "
               "that never yields (stall)"])
    for res in common.pmap(worker, shapes(tier)):
        ck.add(res)
    return ck.finish()
