"""C14 -- state changes walk the EtherCAT state machine in order.

The real Terminal.to_operational / get_state / set_state coroutines run
symbolically against an AL-register terminal model: start state, error flag,
status code, the number of polls every transition takes and the poll at
which an error appears are solver variables; the target is enumerated.
The recorded AL-control writes and AL-status reads are checked against the
statement.
"""
from .. import busmodel, common, pyrun, pysym
from ..pysym import E, SInt, land, lnot, lor

FUNCTIONS = ["ebpfcat/ethercat.py:Terminal.to_operational",
             "ebpfcat/ethercat.py:Terminal.get_state/set_state",
             "ebpfcat/ethercat.py:EtherCat.roundtrip (datagram encoding)"]
ORDER = [1, 2, 4, 8]          # INIT, PRE-OP, SAFE-OP, OP (AL state codes)


class ALTerminal(busmodel.TerminalModel):
    """ETG.1000.6 AL state machine: a requested state is reported after
    `delay[k]` further polls; an error (bit 4) may appear at poll `err_at`
    while a change is pending; an acknowledge (bit 4 in AL control) clears
    the error at once and the terminal reaches the requested state (INIT)
    after `ack_delay` further polls -- until then it still reports the state
    it was in; a new request replaces a pending one"""

    def __init__(self, state, error, status, delays, err_at, hi_bits,
                 ack_delay=0):
        super().__init__("al", position=1000)
        self.state, self.error, self.status = state, error, status
        self.delays, self.err_at, self.hi_bits = delays, err_at, hi_bits
        self.pending = None
        self.polls_pending = 0
        self.cur_delay = 0
        self.ack_delay = ack_delay
        self.nreq = 0
        self.polls = 0
        self.poll_limit = 4 * (sum(delays) + len(delays) + ack_delay) + 12
        self.events = []          # ("w", value) / ("r", state, error)

    def write_120(self, data):
        v, = pysym.sym_unpack_from("<H", data, 0)
        v = int(v)                # values written by the master are concrete
        self.events.append(("w", v))
        if v & 0x10:
            self.error = False
            if self.ack_delay == 0:
                self.state = v & 0xf
                self.pending = None
            else:
                self.pending = v & 0xf
                self.polls_pending = 0
                self.cur_delay = self.ack_delay
            return
        self.pending = v & 0xf
        self.polls_pending = 0
        self.nreq += 1
        self.cur_delay = self.delays[min(self.nreq - 1, len(self.delays) - 1)]

    def read_130(self, n):
        self.polls += 1
        if self.polls > self.poll_limit:
            # every request is answered within the delays chosen: a master
            # still polling now waits for something that cannot come
            raise busmodel.Rejected(
                f"the master is still polling after {self.polls - 1} reads "
                f"(state {self.state}, error flag {self.error}): it neither "
                "returns nor raises")
        if self.pending is not None:
            if self.err_at == self.polls:
                self.error = True
                self.pending = None
            elif self.polls_pending >= self.cur_delay:
                self.state = self.pending
                self.pending = None
            else:
                self.polls_pending += 1
        st = self.state
        err = self.error
        self.events.append(("r", st, err))
        word = st | (pysym.ite(err, 0x10, 0)) | (self.hi_bits & 0xffe0)
        return pysym.sym_pack("<H2xH", word, self.status)[:n] \
            if not E.concrete else \
            __import__("struct").pack("<H2xH", word, self.status)[:n]


def make_harness(target_code, npoll, only_start=None, ackmax=1):
    def harness():
        eth = pysym.module("ethercat")
        start = E.int("start", 1, 8)
        E.assume(lor(start == 1, start == 2, start == 4, start == 8))
        if only_start is not None:
            E.assume(start == only_start)
        start = int(start)                    # case split: 4 values
        error = bool(E.bool("error"))
        status = E.int("status", bits=16)
        hi_bits = E.int("al_status_upper_bits", bits=16)
        delays = [int(E.int(f"delay{k}", 0, npoll)) for k in range(3)]
        err_at = int(E.int("err_at", 0, 3 * (npoll + 1) + 2))   # 0 = never
        ack_delay = int(E.int("ack_delay", 0, min(npoll, ackmax)))
        target = eth.MachineState(target_code)
        model = ALTerminal(start, error, status, delays, err_at, hi_bits,
                           ack_delay)
        bus = busmodel.Bus(eth, [model])
        outcome = {}

        async def main():
            ec = busmodel.make_ec(eth)
            t = eth.Terminal(ec)
            t.position = 1000
            try:
                outcome["ret"] = await busmodel.with_bus(
                    ec, bus, t.to_operational(target))
            except eth.EtherCatError as ex:
                outcome["raised"] = ex
        pysym.run_async(main, max_steps=4000)
        ev = model.events
        writes = [(i, e[1]) for i, e in enumerate(ev) if e[0] == "w"]
        reads = [(i, e[1], e[2]) for i, e in enumerate(ev) if e[0] == "r"]
        E.prove(len(reads) >= 1 and ev[0][0] == "r",
                "the state is read before anything is requested")
        first_err = reads[0][2]
        eff = 1 if first_err else reads[0][1]      # start state after ack
        w = list(writes)
        if first_err:
            E.prove(bool(w) and w[0][1] == 0x11 and w[0][0] == 1,
                    "a reported error is acknowledged first by requesting "
                    "INIT with the acknowledge flag")
            w = w[1:]
        else:
            E.prove(all(v != 0x11 for _, v in w),
                    "no acknowledge without a reported error")
        # requests: one step at a time, in order, never above the target
        expect = [s for s in ORDER if s > eff and s <= target_code]
        got = [v for _, v in w]
        raised = "raised" in outcome
        E.prove(got == expect[:len(got)],
                f"states are requested one step at a time in order "
                f"(requested {got}, admissible {expect})")
        E.prove(all(v <= target_code for v in got),
                "no state above the target is requested")
        # next request only after the previous one was reported
        for (i1, v1), (i2, v2) in zip(w, w[1:]):
            E.prove(any(i1 < i < i2 and st == v1 and not er
                        for i, st, er in reads),
                    "the next state is requested only after the terminal "
                    "reported the previously requested one")
        err_during = any(er for i, st, er in reads[1:])
        if raised:
            E.prove(err_during, "raises only if the terminal reported an "
                                "error while changing state")
        else:
            E.prove(not err_during, "raises if the terminal reports an error "
                                    "while changing state")
            final = reads[-1][1] if (w or not first_err) else 1
            if first_err:
                E.prove(got == expect and (not expect or final == target_code),
                        "after an acknowledged error returns once the target "
                        "itself was reported")
            else:
                E.prove(final >= target_code and got == expect,
                        "returns only once a state at or above the target "
                        "was reported")
    return harness


def worker(args):
    target, npoll, st0 = args
    res = pyrun.new_res()
    name = f"to_operational(target={target}) start={st0} polls<={npoll}"
    try:
        st = pyrun.run("C14", name,
                       make_harness(target, npoll, st0, 1 if npoll <= 2 else npoll), res,
                       sig=lambda w: w.split("(")[0].strip()[:80])
        res["samples"].append(dict(harness=name, **{
            k: st[k] for k in ("paths", "aborted", "decisions", "obligations",
                               "queries", "wall")}))
    except Exception as ex:
        import traceback
        res["errors"].append(f"{name}: harness exception {ex} "
                             f"{traceback.format_exc()[-400:]}")
    return res


def main(tier, replay_file=None):
    npoll = 2 if tier == "quick" else 3
    ck = common.Check(
        "C14", tier, "model_checking", FUNCTIONS,
        bounds=dict(start_states="INIT, PRE-OP, SAFE-OP, OP (not BOOTSTRAP)",
                    targets="PRE-OP, SAFE-OP, OP",
                    polls_per_transition=f"0..{npoll} (symbolic, per transition)",
                    error="initial error flag symbolic; an error may appear "
                          "at any poll (symbolic poll number) or never; the "
                          f"acknowledged terminal needs 0..{1 if npoll <= 2 else npoll} polls "
                          "(symbolic) to leave the state it reported",
                    status_code="16-bit symbolic; unused AL-status bits symbolic",
                    outside="terminals that never report the requested state; "
                            "BOOTSTRAP"),
        stubs=["AL register model (0x120 control / 0x130 status) per "
               "ETG.1000.6: protocol-conformant terminal",
               "bus model at the datagram interface (vf/busmodel.py)"])
    items = [(t, npoll, s0) for t in (2, 4, 8) for s0 in (1, 2, 4, 8)]
    for res in common.pmap(worker, items):
        ck.add(res)
    return ck.finish()
