"""C27 -- the Valve device enforces its safe state on timeout.

The real Valve.update / Valve.reset run symbolically over histories: at every
step the requested target, both switch readings and the clock advance are
solver variables (the clock is a stub returning arbitrary non-decreasing
instants); moving time and safe state are enumerated.  After every step the
real coil / target / error are compared with the statement.
"""
from .. import common, pyrun, pysym
from ..pysym import E, SBool, land, lnot, lor

FUNCTIONS = ["ebpfcat/devices.py:Valve.update", "ebpfcat/devices.py:Valve.reset",
             "ebpfcat/ebpfcat.py:TerminalVar.__get__/__set__, DeviceVar.__get__/__set__"]


class FakeVar:
    """a linked process variable (what TerminalVar delegates to)"""

    def __init__(self, value=False):
        self.value = value

    def get(self, device):
        return self.value

    def set(self, device, value):
        self.value = value


def bite(c, a, b):
    return lor(land(c, a), land(lnot(c), b))


def beq(a, b):
    return lor(land(a, b), land(lnot(a), lnot(b)))


def make_harness(steps, moving, safe):
    def harness():
        dev = pysym.module("devices")
        clock = dict(now=E.int("t0", 0, 1000), calls=0)

        def monotonic():
            clock["calls"] += 1
            d = E.int(f"dt{clock['calls']}", 0, 20)
            clock["now"] = clock["now"] + d
            return clock["now"]
        saved = dev.monotonic
        dev.monotonic = monotonic
        try:
            v = dev.Valve()
            v.sync_group = object()       # plain (slow, in-process) storage
            v.movingTime = moving
            v.safeState = safe
            coil, osw, csw = FakeVar(E.bool("coil0")), FakeVar(), FakeVar()
            v.__dict__["coil"] = coil
            v.__dict__["openSwitch"] = osw
            v.__dict__["closedSwitch"] = csw
            v.reset()
            E.prove(lnot(v.error), "reset clears the error")
            last_good = clock["now"]
            for k in range(steps):
                tg = E.bool(f"target{k}")
                osw.value = E.bool(f"open{k}")
                csw.value = E.bool(f"closed{k}")
                v.target = tg
                c0, err0 = coil.value, v.error
                calls0 = clock["calls"]
                v.update()
                # the instants the device read during this update
                now = clock["now"]
                if safe is False:
                    confirmed = lor(land(c0, osw.value, lnot(csw.value)),
                                    land(lnot(c0), csw.value, lnot(osw.value)))
                else:
                    confirmed = None
                within = (now - last_good) < moving
                if confirmed is not None:
                    keep = lor(confirmed, within)
                    E.prove(pysym.implies(keep, land(beq(coil.value, tg),
                                                     beq(v.target, tg))),
                            f"step {k}: coil follows the target while the "
                            "position is confirmed or the moving time has "
                            "not elapsed")
                    E.prove(pysym.implies(lnot(keep), land(
                        v.error, beq(coil.value, safe), beq(v.target, safe))),
                        f"step {k}: otherwise error is flagged and coil and "
                        "target go to the safe state")
                    E.prove(pysym.implies(keep, beq(v.error, err0)),
                            f"step {k}: no error is flagged while confirmed "
                            "or within the moving time")
                    # the device's own notion of "last confirmed"
                    last_good = pysym.ite(confirmed, now, last_good) \
                        if not E.concrete else (now if confirmed else last_good)
                else:
                    # error reaction for the other safe-state setting: when
                    # the device flags an error in this step, coil and target
                    # must be the configured safe state
                    newly = land(v.error, lnot(err0))
                    E.prove(pysym.implies(newly, land(beq(coil.value, safe),
                                                      beq(v.target, safe))),
                            f"step {k}: on error coil and target go to the "
                            f"configured safe state ({safe})")
                    E.prove(pysym.implies(
                        land(v.error, lnot(beq(coil.value, tg))),
                        land(beq(coil.value, safe), beq(v.target, safe))),
                        f"step {k}: a coil that does not follow the target is "
                        f"in the configured safe state ({safe}) with the error "
                        "flagged")
                    E.prove(pysym.implies(lnot(v.error), beq(coil.value, tg)),
                            f"step {k}: without error the coil follows the "
                            "target")
        finally:
            dev.monotonic = saved
    return harness


def worker(args):
    steps, moving, safe = args
    res = pyrun.new_res()
    name = f"Valve history of {steps} updates, movingTime={moving}, safeState={safe}"
    try:
        st = pyrun.run("C27", name, make_harness(steps, moving, safe), res,
                       sig=lambda w: w.split(":")[-1].strip()[:70])
        res["samples"].append(dict(harness=name, **{
            k: st[k] for k in ("paths", "decisions", "obligations", "queries",
                               "wall")}))
    except Exception as ex:
        import traceback
        res["errors"].append(f"{name}: harness exception {ex} "
                             f"{traceback.format_exc()[-400:]}")
    return res


def main(tier, replay_file=None):
    steps = 3 if tier == "quick" else 4
    ck = common.Check(
        "C27", tier, "model_checking", FUNCTIONS,
        bounds=dict(history=f"reset followed by {steps} updates",
                    per_step="target, open switch, closed switch, clock "
                             "advance 0..20 ticks per clock reading: symbolic",
                    moving_time=[0, 1, 5], safe_state=[False, True],
                    initial="coil state and start time symbolic",
                    outside="longer histories; non-integer clock readings"),
        stubs=["time.monotonic -> arbitrary non-decreasing integer instants",
               "process variables are plain linked cells (FakeVar) instead of "
               "frame bits (see C19 for those)"],
        assumptions=["position check per the statement for safeState=False; "
                     "for safeState=True only the error reaction is checked "
                     "(as the property's quantifier says)"])
    items = [(steps, m, s) for m in (0, 1, 5) for s in (False, True)]
    for res in common.pmap(worker, items):
        ck.add(res)
    return ck.finish()
