"""C04 -- writing one variable never changes another.

Seeded random programs declare local variables of all sizes in the main
program and in subprograms (several instances), array-map and hash-map
variables and sometimes a Dict (its key/value staging members are stack
variables too).  The generated program

  1. gives every variable a value from a symbolic input cell,
  2. runs a seeded sequence of statements, each writing ONE variable (copy
     from an input cell, move from another variable, hash-map variable
     assigned an expression -- which needs an address temporary and a key
     temporary --) or only evaluating something (arithmetic with
     temporaries, comparisons, a subprogram's own statements),
  3. copies every variable to an output cell.

The emitted bytes are executed symbolically (engine A) over symbolic inputs;
the reference is a plain store: each variable holds the value last assigned
to it, truncated to its format.  Any other final value means some write or
temporary changed a variable it should not.
"""
import random
import struct

import z3
from z3 import And, Extract, Not, Or, Select, SignExt, ZeroExt

from .. import common
from ..exprs import SIZES

FUNCTIONS = ["ebpfcat/ebpf.py:LocalVar.__set_name__/fmt_addr (main and "
             "SubProgram branch)", "ebpfcat/ebpf.py:EBPF.get_stack, "
             "EBPF.save_registers, EBPF.get_free_register",
             "ebpfcat/ebpf.py:Expression.get_address, Memory._set/calculate, "
             "Binary.calculate, comparison",
             "ebpfcat/hashmap.py:HashGlobalVar.get_address, "
             "HashGlobalVarDesc.__set__, Dict.__set_name__, TheDict.update/"
             "lookup", "ebpfcat/ebpf.py:Member.fmt_addr, Structure",
             "ebpfcat/arraymap.py:ArrayMap.collect/init"]
FMTS = "BbHhIiQq"
REGION = "subprogram_instances_share_frame"
REGION2 = "two_array_maps_share_base_register"


def gen_spec(seed):
    rng = random.Random(seed)
    V = []          # variables: dict(kind, owner, name, fmt)
    for i in range(rng.randint(1, 3)):
        V.append(dict(kind="local", owner="main", name=f"l{i}",
                      fmt=rng.choice(FMTS)))
    subs = []
    for ci in range(rng.randint(0, 2)):
        nloc = rng.randint(1, 2)
        ninst = rng.randint(1, 2)
        subs.append(dict(cls=ci, locals=[rng.choice(FMTS) for _ in range(nloc)],
                         instances=ninst))
        for ii in range(ninst):
            for li in range(nloc):
                V.append(dict(kind="sublocal", owner=f"s{ci}_{ii}",
                              name=f"a{li}", fmt=subs[-1]["locals"][li]))
    for i in range(rng.randint(1, 2)):
        V.append(dict(kind="array", owner="main", name=f"m{i}",
                      fmt=rng.choice(FMTS)))
    for i in range(rng.randint(0, 2)):
        V.append(dict(kind="hash", owner="main", name=f"h{i}",
                      fmt=rng.choice("iIqQ")))
    dct = None
    if rng.random() < 0.3:
        dct = dict(key=[rng.choice("IQ")], value=[rng.choice("Qq"),
                                                  rng.choice("Ii")][:rng.randint(1, 2)])
        for i, f in enumerate(dct["key"]):
            V.append(dict(kind="member", owner="key", name=f"k{i}", fmt=f))
        for i, f in enumerate(dct["value"]):
            V.append(dict(kind="member", owner="value", name=f"v{i}", fmt=f))
    n = len(V)
    stmts = []
    for _ in range(rng.randint(4, 8)):
        r = rng.random()
        if r < 0.3:
            stmts.append(("copy", rng.randrange(n)))
        elif r < 0.5:
            stmts.append(("move", rng.randrange(n), rng.randrange(n)))
        elif r < 0.65:
            stmts.append(("expr", rng.randrange(n), rng.randrange(n),
                          rng.choice(["*", "//", "+"])))
        elif r < 0.8:
            hs = [k for k, v in enumerate(V) if v["kind"] == "hash"]
            if hs:
                stmts.append(("hexpr", rng.choice(hs), rng.randrange(n)))
            else:
                stmts.append(("copy", rng.randrange(n)))
        elif r < 0.9:
            stmts.append(("cond", rng.randrange(n)))
        else:
            if dct:
                stmts.append(("dictop", rng.choice(["update", "lookup"])))
            else:
                stmts.append(("move", rng.randrange(n), rng.randrange(n)))
    twomaps = rng.random() < 0.12
    # counted variables (like ebpfcat's own `counters = globalVar("64I")`):
    # never touched by the program, declared somewhere among the others;
    # their whole extent must stay clear of every other variable
    rb = random.Random(seed * 7919 + 13)
    blocks = []
    if rb.random() < 0.45:
        for j in range(rb.randint(1, 2)):
            blocks.append(dict(kind=rb.choice(["local", "array"]),
                               fmt=rb.choice(["4H", "2I", "3B", "4I", "2Q"]),
                               at=rb.randint(0, n), name=f"blk{j}"))
    return dict(seed=seed, vars=V, subs=subs, dict=dct, stmts=stmts,
                twomaps=twomaps, blocks=blocks)


def build_and_emit(spec):
    from .. import dsl
    import ebpfcat.arraymap as am
    import ebpfcat.hashmap as hm
    ebpf = dsl.ebpf
    V = spec["vars"]
    reg = dsl.new_registry()
    ns = {}
    io = am.ArrayMap()
    ns["io"] = io
    vm = io
    if spec["twomaps"]:
        vm = am.ArrayMap()       # the program's variables get a map of their
        ns["vm"] = vm            # own, next to the harness's input/output map
    hmap = hm.HashMap()
    if any(v["kind"] == "hash" for v in V):
        ns["hmap"] = hmap
    def declare_blocks(at):
        for b in spec.get("blocks", []):
            if b["at"] == at:
                ns[b["name"]] = ebpf.LocalVar(b["fmt"]) \
                    if b["kind"] == "local" else vm.globalVar(b["fmt"])
    for k, v in enumerate(V):
        declare_blocks(k)
        ns[f"in{k}"] = io.globalVar("q")
        ns[f"in2_{k}"] = io.globalVar("q")
        ns[f"out{k}"] = io.globalVar("q" if v["fmt"].islower() else "Q")
        if v["kind"] == "local":
            ns[v["name"]] = ebpf.LocalVar(v["fmt"])
        elif v["kind"] == "array":
            ns[v["name"]] = vm.globalVar(v["fmt"])
        elif v["kind"] == "hash":
            ns[v["name"]] = hmap.globalVar(v["fmt"])
    declare_blocks(len(V))
    ns["scr"] = io.globalVar("q")
    subobjs = {}
    for sc in spec["subs"]:
        sns = {f"a{li}": ebpf.LocalVar(f) for li, f in enumerate(sc["locals"])}
        cls = type(f"Sub{sc['cls']}", (ebpf.SubProgram,), sns)
        for ii in range(sc["instances"]):
            subobjs[f"s{sc['cls']}_{ii}"] = cls()
    if spec["dict"]:
        Key = type("Key", (ebpf.Structure,),
                   {f"k{i}": ebpf.Member(f)
                    for i, f in enumerate(spec["dict"]["key"])})
        Value = type("Value", (ebpf.Structure,),
                     {f"v{i}": ebpf.Member(f)
                      for i, f in enumerate(spec["dict"]["value"])})
        ns["table"] = hm.Dict(Key, Value, size=3)
    Prog = type("Prog", (ebpf.EBPF,), ns)
    e = Prog(dsl.ProgType.XDP, "GPL", subprograms=list(subobjs.values()))

    def obj(v):
        if v["kind"] == "sublocal":
            return subobjs[v["owner"]]
        if v["kind"] == "member":
            return getattr(e.table, v["owner"])
        return e

    def get(k):
        return getattr(obj(V[k]), V[k]["name"])

    def put(k, val):
        setattr(obj(V[k]), V[k]["name"], val)
    for k in range(len(V)):
        put(k, getattr(e, f"in{k}"))
    for st in spec["stmts"]:
        if st[0] == "copy":
            put(st[1], getattr(e, f"in2_{st[1]}"))
        elif st[0] == "move":
            put(st[1], get(st[2]))
        elif st[0] == "expr":
            a, b = get(st[1]), get(st[2])
            if st[3] == "*":
                e.scr = a * 3 + b * 5
            elif st[3] == "//":
                e.scr = (a + 7) // 3 + b
            else:
                e.scr = a + b + 1
        elif st[0] == "hexpr":
            put(st[1], get(st[2]) + 1)
        elif st[0] == "cond":
            with get(st[1]) > 3:
                e.scr = 1
        elif st[0] == "dictop":
            if st[1] == "update":
                e.table.update()
            else:
                with e.table.lookup() as (value, Else):
                    e.scr = 2
                with Else:
                    e.scr = 3
    for k in range(len(V)):
        setattr(e, f"out{k}", get(k))
    e.r0 = 0
    e.exit()
    code = e.assemble()
    return e, subobjs, code, list(reg.maps)


def addresses(spec, e, subobjs):
    """stack address spans of the stack variables (for the recorded finding
    on subprogram frames): {k: (start, size)}"""
    out = {}
    for k, v in enumerate(spec["vars"]):
        if v["kind"] == "local":
            _, a = type(e).__dict__[v["name"]].fmt_addr(e)
        elif v["kind"] == "sublocal":
            o = subobjs[v["owner"]]
            _, a = type(o).__dict__[v["name"]].fmt_addr(o)
        elif v["kind"] == "member":
            st = getattr(e.table, v["owner"])
            _, a = type(st).__dict__[v["name"]].fmt_addr(st)
        else:
            continue
        out[k] = (a, SIZES[v["fmt"]])
    return out


def check_blocks(spec, e, name, seed, res):
    """layout obligation (interval arithmetic on the generator's own
    addresses, no solver): the declared extent of a counted variable is
    disjoint from every other variable of the same map / the main frame"""
    import struct
    import ebpfcat.arraymap as am
    import ebpfcat.ebpf as eb

    def size(fmt):
        return 8 if fmt == "x" else struct.calcsize(fmt)
    for b in spec.get("blocks", []):
        desc = type(e).__dict__[b["name"]]
        spans = []
        for n, d in type(e).__dict__.items():
            if b["kind"] == "local" and isinstance(d, eb.LocalVar):
                spans.append((n, d.fmt_addr(e)[1], size(d.fmt)))
            elif b["kind"] == "array" and isinstance(d, am.ArrayGlobalVarDesc) \
                    and d.map is desc.map:
                spans.append((n, e.__dict__[n], size(d.fmt)))
        mine = [x for x in spans if x[0] == b["name"]][0]
        for n, a, w in spans:
            if n == b["name"]:
                continue
            res["obligations"] += 1
            if a < mine[1] + mine[2] and mine[1] < a + w:
                res["violations"].append(dict(
                    signature=f"C04|layout|counted {b['kind']} variable "
                              "overlaps another variable",
                    what=f"{name}: {b['kind']} variable {b['name']} "
                         f"({b['fmt']}) occupies [{mine[1]}, "
                         f"{mine[1] + mine[2]}) and overlaps {n} at [{a}, "
                         f"{a + w}): writing one changes the other",
                    witness=dict(spec=spec), replay=dict(seed=seed)))
            else:
                res["discharged"] += 1


def check_program(seed, q, res):
    from ..bpfsym import Env, bv, decode, load, merge, run
    spec = gen_spec(seed)
    V = spec["vars"]
    name = f"program seed {seed}"
    try:
        e, subobjs, code, maps = build_and_emit(spec)
    except Exception as ex:
        res["obligations"] += 1
        res["violations"].append(dict(
            signature=f"C04|program cannot be generated: {type(ex).__name__}",
            what=f"{name}: generating the program fails with "
                 f"{type(ex).__name__}: {ex}", witness=dict(spec=spec),
            replay=dict(seed=seed)))
        return
    res["programs"] += 1
    check_blocks(spec, e, name, seed, res)
    io = [m for m in maps if m.kind == "array"][:1]
    if len(io) != 1:
        res["errors"].append(f"{name}: io map not found")
        return
    iom = io[0]
    hmi = [m for m in maps if m.kind == "hash" and m.key_size == 1]
    insns = decode(code)
    env = Env(maps)
    st0 = env.initial()
    loaded = []
    if hmi:
        pres0 = env._present(hmi[0], st0)
        nh = sum(1 for v in V if v["kind"] == "hash")
        loaded = [Select(pres0, z3.BitVecVal(i + 1, 8)) for i in range(nh)]
    slots0 = {}
    for m in maps:
        if m.kind == "hash" and m.key_size != 1:
            m.slots = 2
            slots0[m.fd] = env._slots(m, st0)
    exits = run(insns, env, st0.copy())
    normal = [x for x in exits if x.kind == "exit"]
    g, fin = merge([(x.guard, x.state) for x in normal])
    mem0 = st0.mem
    base = list(env.assumptions) + loaded + [g]

    def cell(n, mem=mem0, w=8):
        return load(mem, bv(iom.base + e.__dict__[n]), w)

    def ext(raw, fmt):
        w = SIZES[fmt]
        if w == 8:
            return raw
        return (SignExt if fmt.islower() else ZeroExt)(64 - 8 * w, raw)

    def trunc_ext(v64, fmt):
        w = SIZES[fmt]
        return ext(Extract(8 * w - 1, 0, v64), fmt)
    # recorded finding: instances of subprograms share one frame -- a sub
    # local overlapping (by address) a local of ANOTHER subprogram instance
    # is outside the claim, and so is whatever is computed from it
    addr = addresses(spec, e, subobjs)
    region = set()
    for k, v in enumerate(V):
        if v["kind"] != "sublocal":
            continue
        for j, u in enumerate(V):
            if j == k or u["kind"] != "sublocal" or u["owner"] == v["owner"]:
                continue
            (a, sa), (b, sb) = addr[k], addr[j]
            if a < b + sb and b < a + sa:
                region.add(k)
    # reference store
    store = {k: trunc_ext(cell(f"in{k}"), V[k]["fmt"]) for k in range(len(V))}
    unknown = set(region)
    direct = set(range(len(V)))      # last assignment came from an input cell
    for si, st in enumerate(spec["stmts"]):
        if st[0] in ("move", "hexpr"):
            direct.discard(st[1])
        if st[0] == "copy":
            direct.add(st[1])
            store[st[1]] = trunc_ext(cell(f"in2_{st[1]}"), V[st[1]]["fmt"])
            if st[1] not in region:
                unknown.discard(st[1])
        elif st[0] in ("move", "hexpr"):
            src_narrow = V[st[1]]["kind"] == "hash" and st[0] == "move" and \
                SIZES[V[st[2]]["fmt"]] < 8
            # (a hash variable assigned from a narrower variable takes eight
            # bytes from that variable's address: C09's subject, not claimed)
            if st[2] in unknown or src_narrow:
                unknown.add(st[1])
            else:
                val = store[st[2]] + (1 if st[0] == "hexpr" else 0)
                store[st[1]] = trunc_ext(val, V[st[1]]["fmt"])
                if st[1] not in region:
                    unknown.discard(st[1])
    obl = [("the program ends normally", None, [Not(g)])]
    for k, v in enumerate(V):
        if k in unknown and not (k in region and k in direct):
            continue
        got = cell(f"out{k}", fin.mem)
        label = (f"variable {k} ({v['kind']} {v['owner']}.{v['name']}, "
                 f"{v['fmt']}) holds the value last assigned to it")
        obl.append((label, k, [got != store[k]]))
    for pc, gg, ok, text in env.safety:
        obl.append((f"pc {pc}: {text} inside region", "safe", [gg, Not(ok)]))
    for oname, k, fs in obl:
        res["obligations"] += 1
        r, mdl = q.check(*(list(env.assumptions) + loaded
                           if k in (None, "safe") else base), *fs)
        if r == "unsat":
            res["discharged"] += 1
            continue
        if r == "unknown":
            res["undecided"] += 1
            res["undecided_list"].append(f"{name}: {oname}")
            continue
        rep = replay(mdl, spec, e, code, maps, iom, hmi, mem0, k, store,
                     slots0)
        res["replayed"] += 1
        if rep is None:
            res["errors"].append(f"{name}: '{oname}' counterexample did not "
                                 "reproduce")
            continue
        if spec["twomaps"]:
            res["discharged"] += 1
            sig = f"C04|region|{REGION2}"
        elif k in region:
            res["discharged"] += 1
            sig = f"C04|region|{REGION}"
        else:
            kind = V[k]["kind"] if isinstance(k, int) else str(k)
            sig = f"C04|{kind} variable changed by another statement"
        res["violations"].append(dict(
            signature=sig, what=f"{name}: {oname} fails: {rep} "
            f"(statements {spec['stmts']})", witness=dict(spec=spec, summary=rep),
            replay=dict(seed=seed)))
    r, _ = q.check(*base)
    res["vacuity"].append((f"{name}: normal end reachable", r == "sat"))
    res["samples"].append(dict(
        seed=seed, instructions=len(insns),
        variables=[(v["kind"], v["owner"], v["fmt"]) for v in V],
        statements=spec["stmts"], stack_addresses=addr,
        outside_claim=sorted(region | unknown)))


def replay(model, spec, e, code, maps, iom, hmi, mem0, k, store, slots0):
    from ..bpfsym import bv
    from ..bpfconc import Fault, Machine
    ev = lambda x: model.eval(x, model_completion=True)
    mem = {}
    for m in maps:
        if m.kind == "array":
            for i in range(m.area):
                mem[m.base + i] = ev(Select(mem0, bv(m.base + i))).as_long()
    mach = Machine(code, maps, mem=dict(mem))
    try:
        if hmi:
            nh = sum(1 for v in spec["vars"] if v["kind"] == "hash")
            mach.load_hash(hmi[0].fd, {bytes([i + 1]): bytes(8)
                                       for i in range(nh)})
    except AttributeError:
        pass
    for m in maps:
        if m.fd in slots0:
            ent = {}
            for i, (v, kk) in enumerate(slots0[m.fd]):
                if z3.is_true(ev(v)):
                    ent[ev(kk).as_long().to_bytes(m.key_size, "little")] = \
                        bytes(ev(Select(mem0, bv(m.base + i * m.value_size + j)))
                              .as_long() for j in range(m.value_size))
            mach.load_hash(m.fd, ent)
    try:
        r = mach.run()
    except Fault as ex:
        return f"fault {ex}"
    if r[0] != "exit":
        return f"program ends with {r}"
    if not isinstance(k, int):
        return None
    got = int.from_bytes(bytes(mach.ld(iom.base + e.__dict__[f"out{k}"] + j, 1)
                               for j in range(8)), "little")
    want = ev(store[k]).as_long()
    if got == want:
        return None
    return f"final value {got:#x}, last assigned {want:#x}"


def worker(seed):
    res = dict(obligations=0, discharged=0, undecided=0, programs=0,
               replayed=0, violations=[], errors=[], undecided_list=[],
               samples=[], vacuity=[], queries=0, solver_s=0.0)
    q = common.Q(rlimit=30_000_000, timeout_ms=60_000, fb_timeout=30)
    try:
        check_program(seed, q, res)
    except Exception as ex:
        import traceback
        res["errors"].append(f"seed {seed}: {type(ex).__name__} {ex} "
                             f"{traceback.format_exc()[-700:]}")
    res["queries"], res["solver_s"] = q.queries, q.solver_s
    return res


def main(tier, replay_file=None):
    n = 32 if tier == "quick" else 400
    ck = common.Check(
        "C04", tier, "translation_validation", FUNCTIONS,
        bounds=dict(programs=f"{n} seeded programs (seed base {common.seed()}): "
                             "1-3 main locals, 0-2 subprogram classes with 1-2 "
                             "locals and 1-2 instances, 1-2 array-map and 0-2 "
                             "hash-map variables, 30% a Dict (key/value "
                             "members); 4-8 statements (copy, move, arithmetic "
                             "into a scratch cell, hash variable := expression, "
                             "comparison, Dict update/lookup)",
                    values="all input cells symbolic (64 bits)",
                    outside="packet variables (C07/C19); subprogram locals "
                            "overlapping a later-written local of another "
                            "subprogram instance (recorded finding)"),
        stubs=["array map, hash map (1-byte keys) and 2-slot Dict models of "
               "engine A"],
        assumptions=["hash-map variable entries exist (program loaded)"])
    base = common.seed()
    for res in common.pmap(worker, [base * 1000 + i for i in range(n)]):
        ck.add(res)
    return ck.finish()
