"""C30 -- slow sync groups exchange process data and check working counters.

The real SyncGroup.start / update_devices and SyncGroupBase.run run on the
deterministic event loop: terminals answer register datagrams through the
datagram-level bus model; the cyclic frame goes through the real
roundtrip_packet / datagram_received and is answered by a frame-level stub
with symbolic input data and symbolic 16-bit working counters per datagram.
Devices are real Device subclasses using TerminalVars.
"""
import asyncio

from .. import busmodel, common, pyrun, pysym
from ..pysym import E, land, lnot, lor

FUNCTIONS = ["ebpfcat/ebpfcat.py:SyncGroup.start/update_devices",
             "ebpfcat/ebpfcat.py:SyncGroupBase.run/map_fmmu/allocate",
             "ebpfcat/ebpfcat.py:PacketVar.get/set/_start, TerminalVar, "
             "ProcessDesc.__get__",
             "ebpfcat/ebpfcat.py:SterilePacket.append/append_fmmu (counters)",
             "ebpfcat/ethercat.py:EtherCat.roundtrip_packet/datagram_received, "
             "Terminal.to_operational/set_state/get_state/map_fmmu"]


class SlaveModel(busmodel.TerminalModel):
    """AL state machine that follows every request at once + plain registers"""

    def __init__(self, position):
        super().__init__(f"t{position}", position)
        self.state = 2

    def write_120(self, data):
        v, = pysym.sym_unpack_from("<H", data, 0)
        self.state = int(v) & 0xf
        self.log.append(("al", self.state))

    def read_130(self, n):
        return (pysym.sym_pack("<H2xH", self.state, 0) + bytes(16))[:n]


def make_harness(layout, cycles):
    """layout: list of (use_fmmu, in_sz, out_sz)"""
    def harness():
        eth = pysym.module("ethercat")
        ecm = pysym.module("ebpfcat")
        saved = ecm.monotonic
        rec = dict(frames=[], updates=[], outs=[], ins=[])
        pysym.SYM_BYTEARRAYS = True
        try:
            async def main():
                loop = asyncio.get_event_loop()
                ecm.monotonic = loop.time
                ec = busmodel.make_ec(eth, ecm.SimpleEtherCat)
                models, terms, devs = [], [], []

                class Tr:
                    def sendto(self, data, addr):
                        # snapshot: the group re-sends its (mutable) buffer
                        if isinstance(data, pysym.SByteArray):
                            data = data.rope
                        elif isinstance(data, bytearray):
                            data = bytes(data)
                        rec["frames"].append(data)
                        k = len(rec["frames"]) - 1
                        if k >= cycles + 1:
                            return
                        resp = pysym.SBytes.of(data) if not E.concrete else bytes(data)
                        # the bus returns symbolic input data and counters
                        info = []
                        for (pos, n, is_in, wpos) in rec["dgs"]:
                            wk = E.int(f"wkc{k}_{pos}", bits=16)
                            if is_in:
                                nd = E.bytes(f"in{k}_{pos}", n)
                                resp = resp[:pos] + nd + resp[pos + n:]
                            resp = resp[:wpos] + pysym.sym_pack("<H", wk) \
                                + resp[wpos + 2:]
                            info.append((pos, n, is_in, wpos, wk))
                        rec.setdefault("resp", []).append((resp, info))
                        loop.call_soon(ec.datagram_received, resp, None)
                ec.transport = Tr()

                class Dev(ecm.Device):
                    inp = ecm.TerminalVar()
                    out = ecm.TerminalVar()

                    def __init__(self, no):
                        self.no = no

                    def update(self):
                        k = len([u for u in rec["updates"] if u[0] == self.no])
                        seen = self.inp if self.has_in else None
                        rec["updates"].append((self.no, k, seen,
                                               len(rec["frames"])))
                        if self.has_out:
                            v = E.int(f"out{self.no}_{k}", bits=16)
                            self.out = v
                            rec["outs"].append((self.no, k, v))

                for i, (fmmu, isz, osz) in enumerate(layout):
                    m = SlaveModel(1000 + i)
                    t = ecm.EBPFTerminal(ec)
                    t.position = 1000 + i
                    t.name = f"t{i}"
                    t.use_fmmu = fmmu
                    t.pdo_in_sz, t.pdo_in_off = isz, 0x1100
                    t.pdo_out_sz, t.pdo_out_off = osz, 0x1000
                    t.fmmu_used = [None, None, None]
                    t.pdos = {(0x6000, 1): (eth.SyncManager.IN, 0, "H"),
                              (0x7000, 1): (eth.SyncManager.OUT, 0, "H")}
                    d = Dev(i)
                    d.has_in, d.has_out = isz >= 2, osz >= 2
                    if d.has_in:
                        d.inp = ecm.ProcessDesc(0x6000, 1).__get__(t, type(t))
                    if d.has_out:
                        d.out = ecm.ProcessDesc(0x7000, 1).__get__(t, type(t))
                    models.append(m), terms.append(t), devs.append(d)
                bus = busmodel.Bus(eth, models)
                sg = ecm.SyncGroup(ec, devs)
                sg.cycletime = 0.01
                srv = asyncio.ensure_future(bus.serve(ec))
                sg.allocate()
                # datagram table of the cyclic frame: data pos, len, input?, wkc pos
                dgs = []
                pos = 16
                for (cmd, data, wkc, idx, *addr) in sg.packet.data:
                    n = len(data)
                    dgs.append((pos + 10, n, cmd.name in ("FPRD", "LRD"),
                                pos + 10 + n))
                    pos += 12 + n
                rec["dgs"] = dgs
                rec["expected"] = dict(sg.packet.counters)
                # the expected working counter of a datagram is the number of
                # terminals it addresses (written from the layout, not taken
                # from the code): a node-addressed datagram reaches 1, the
                # logical read reaches the FMMU terminals with inputs, the
                # logical write those whose outputs are written
                want = {}
                pos = 16
                for (cmd, data, wkc, idx, *addr) in sg.packet.data:
                    n = len(data)
                    if cmd.name == "LRD":
                        cnt = sum(1 for (f, i, o) in layout if f and i)
                    elif cmd.name == "LWR":
                        cnt = sum(1 for (f, i, o) in layout if f and o >= 2)
                    elif cmd.name == "LRW":
                        cnt = sum((1 if i else 0) + (2 if o >= 2 else 0)
                                  for (f, i, o) in layout if f)
                    else:
                        cnt = 1
                    if cmd.name != "NOP":
                        want[pos + 10 + n] = cnt
                    pos += 12 + n
                rec["want"] = want
                # start() allocates again; keep it the real entry point
                task = sg.start()
                rec["sg"] = sg
                for _ in range(400):
                    await asyncio.sleep(0.002)
                    if len(rec["frames"]) >= cycles + 1 and \
                            all(len([u for u in rec["updates"] if u[0] == d.no])
                                >= cycles for d in devs):
                        break
                rec["wkc_errors"] = sg.wkc_errors
                rec["nupd"] = len([u for u in rec["updates"] if u[0] == 0])
                rec["states"] = [[x[1] for x in m.log if x[0] == "al"]
                                 for m in models]
                task.cancel()
                try:
                    await task
                except (asyncio.CancelledError, Exception):
                    pass
                srv.cancel()
                rec["devs"], rec["terms"] = devs, terms
            pysym.run_async(main, max_steps=60000)
        finally:
            ecm.monotonic = saved
            pysym.SYM_BYTEARRAYS = False
        sg = rec["sg"]
        frames, resp = rec["frames"], rec.get("resp", [])
        E.prove(len(frames) >= cycles + 1, f"{cycles} cycles complete "
                                           f"({len(frames)} frames sent)")
        if len(frames) < cycles + 1:
            return
        E.prove(all(rec["expected"].get(p) == c for p, c in rec["want"].items()),
                f"the expected working counter of every datagram is the "
                f"number of terminals it addresses (code: {rec['expected']}, "
                f"layout: {rec['want']})")
        # (c) every working counter is zero in every frame that is sent
        for k, f in enumerate(frames[:cycles + 1]):
            if k == 0:
                continue        # the first frame carries the expected counters
            for (pos, n, is_in, wpos) in rec["dgs"]:
                wk, = pysym.sym_unpack_from("<H", f, wpos)
                E.prove(wk == 0, f"cycle {k}: working counter of the datagram "
                                 f"at {pos} is cleared before resending")
        # (a) devices see the inputs of the latest response before update
        for (no, k, seen, nframes) in rec["updates"]:
            if seen is None or k >= len(resp):
                continue
            t = rec["terms"][no]
            start = sg.pdo_assign[t][pysym.module("ethercat").SyncManager.IN]
            want, = pysym.sym_unpack_from("<H", resp[k][0], start)
            E.prove(seen == want, f"device {no}, cycle {k}: sees the inputs of "
                                  "the latest response before its update")
        # (b) outputs set in cycle k are in frame k+1
        for (no, k, v) in rec["outs"]:
            if k + 1 >= len(frames):
                continue
            t = rec["terms"][no]
            start = sg.pdo_assign[t][pysym.module("ethercat").SyncManager.OUT]
            got, = pysym.sym_unpack_from("<H", frames[k + 1], start)
            E.prove(got == v, f"device {no}: output set in cycle {k} is sent "
                              f"in frame {k + 1}")
        # (d) from the second cycle on: one error per datagram whose returned
        # counter differs from the expected number of terminals
        exp = rec["expected"]
        total = 0
        first = 0
        for k, (r, info) in enumerate(resp[:rec["nupd"]]):
            for (pos, n, is_in, wpos, wk) in info:
                e = exp[wpos]
                bad = pysym.ite(wk != e, 1, 0)
                if k == 0:
                    first = first + bad
                else:
                    total = total + bad
        E.prove(rec["wkc_errors"] == 1 + first + total,
                "error count grows by exactly one per datagram whose returned "
                "working counter differs from the expected value (cycles >= 2; "
                "the first response counted as the code documents)")
    return harness


def shapes(tier):
    out = [([(True, 2, 2)], 2), ([(False, 2, 2)], 2),
           ([(True, 2, 0), (True, 2, 2)], 2)]
    if tier != "quick":
        out += [([(True, 4, 2)], 3), ([(False, 2, 2), (True, 2, 2)], 2),
                ([(True, 2, 2)], 4)]
    return out


def worker(args):
    layout, cycles = args
    res = pyrun.new_res()
    name = f"slow sync group {layout}, {cycles} cycles"
    try:
        st = pyrun.run("C30", name, make_harness(layout, cycles), res,
                       maxtime=900,
                       sig=lambda w: w.split(":")[-1].strip()[:70])
        res["samples"].append(dict(harness=name, **{
            k: st[k] for k in ("paths", "aborted", "decisions", "obligations",
                               "queries", "wall")}))
    except Exception as ex:
        import traceback
        res["errors"].append(f"{name}: harness exception {ex} "
                             f"{traceback.format_exc()[-600:]}")
    return res


def main(tier, replay_file=None):
    ck = common.Check(
        "C30", tier, "model_checking", FUNCTIONS,
        bounds=dict(terminals="1..2 terminals (FMMU / direct), process images "
                              "of 0..4 bytes (concrete), one 16-bit input and "
                              "output variable each",
                    cycles="2 (thorough 3..4) cycles after start-up",
                    per_cycle="input data returned by the bus, every returned "
                              "working counter (full 16 bits) and the values "
                              "devices write: symbolic",
                    outside="frame loss / timeouts (C12, C24); more terminals"),
        stubs=["datagram-level bus model with AL registers that follow every "
               "request immediately", "frame-level stub answering the cyclic "
               "frame through the real datagram_received",
               "time.monotonic = virtual loop time"])
    for res in common.pmap(worker, shapes(tier)):
        ck.add(res)
    return ck.finish()
