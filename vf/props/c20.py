"""C20 -- a terminal's FMMUs are never shared by two live mappings.

Inductive step: the real Terminal.map_fmmu (enter and exit) runs from an
ARBITRARY slot table -- n = 1..4 slots, each free or in use (solver
variables), arbitrary logical addresses -- for a write and for a read
mapping.  Plus short real histories of nested mappings through
SyncGroupBase.map_fmmu with two sync groups on one terminal.
"""
import asyncio

from .. import busmodel, common, pyrun, pysym
from ..pysym import E, land, lnot, lor

FUNCTIONS = ["ebpfcat/ethercat.py:Terminal.map_fmmu",
             "ebpfcat/ebpfcat.py:SyncGroupBase.map_fmmu",
             "ebpfcat/ethercat.py:Terminal.write, EtherCat.roundtrip"]


def step_harness(n, write):
    def harness():
        eth = pysym.module("ethercat")
        used = [bool(E.bool(f"slot{i}_in_use")) for i in range(n)]
        old = [E.int(f"slot{i}_logical", 0, 0x7fffffff) if used[i] else None
               for i in range(n)]
        logical = E.int("logical", 0, 0x7fffffff)
        size = E.int("size", 1, 1500)
        offset = E.int("offset", 0x1000, 0x3000)
        model = busmodel.TerminalModel("t", position=1234)
        bus = busmodel.Bus(eth, [model])
        out = {}

        async def main():
            ec = busmodel.make_ec(eth)
            t = eth.Terminal(ec)
            t.position = 1234
            t.fmmu_used = list(old)
            t.pdo_out_off = t.pdo_in_off = offset
            t.pdo_out_sz = t.pdo_in_sz = size

            async def body():
                try:
                    async with t.map_fmmu(logical, write) as index:
                        out["index"] = index
                        out["during"] = list(t.fmmu_used)
                        out["log_enter"] = list(model.log)
                except (ValueError, IndexError) as ex:
                    out["failed"] = ex
                out["after"] = list(t.fmmu_used)
            await busmodel.with_bus(ec, bus, body())
        pysym.run_async(main, max_steps=2000)
        nofree = all(used)
        if "index" not in out:
            E.prove(all((a is None) == (b is None) and
                        (a is None or bool(a == b))
                        for a, b in zip(out["after"], old)),
                    "a failed mapping leaves the slot table unchanged")
            E.prove(not [w for w in model.log if w[0] == "w"],
                    "a failed mapping writes no FMMU register")
            return
        idx = out["index"]
        E.prove(not nofree, "without a free FMMU the mapping fails instead "
                            "of reusing one")
        E.prove(isinstance(idx, int) and 0 <= idx < n,
                f"the chosen FMMU index is one of the terminal's {n} FMMUs "
                f"(got {idx})")
        if isinstance(idx, int) and 0 <= idx < n:
            E.prove(not used[idx], f"the chosen FMMU {idx} was free "
                                   f"(table {['used' if u else 'free' for u in used]})")
        d = out["during"]
        for i in range(n):
            if i != idx % n if isinstance(idx, int) else True:
                E.prove((d[i] is None) == (not used[i]) and
                        (d[i] is None or bool(d[i] == old[i])),
                        f"slot {i} of another mapping is untouched while the "
                        "new mapping is live")
        ws = [w for w in out["log_enter"] if w[0] == "w"]
        E.prove(len(ws) == 1 and ws[0][1] == 0x600 + 0x10 * idx,
                "exactly the chosen FMMU's register block is written "
                f"(wrote {[hex(w[1]) if isinstance(w[1], int) else w[1] for w in ws]})")
        if len(ws) == 1:
            lg, sz, sb, eb, off, pb, ty, en = pysym.sym_unpack_from(
                "<IHBBHBBB", ws[0][2], 0)
            E.prove(land(lg == logical, sz == size, sb == 0, eb == 7,
                         off == offset, pb == 0, ty == (2 if write else 1),
                         en == 1),
                    "FMMU entry: logical start, length, bits 0..7, physical "
                    "offset, direction, enable")
        # exit
        a = out["after"]
        E.prove(all((a[i] is None) == (not used[i]) for i in range(n)),
                "ending the mapping frees exactly its own FMMU")
        ws2 = [w for w in model.log[len(out["log_enter"]):] if w[0] == "w"]
        E.prove(len(ws2) == 1 and ws2[0][1] == 0x60c + 0x10 * idx,
                "ending the mapping deactivates exactly its own FMMU")
    return harness


def history_harness(nslots, nmaps):
    """real nested mappings: nmaps context managers entered in order on one
    terminal (reads and writes chosen by the solver), exited in any order"""
    def harness():
        eth = pysym.module("ethercat")
        model = busmodel.TerminalModel("t", position=1234)
        bus = busmodel.Bus(eth, [model])
        kinds = [bool(E.bool(f"map{i}_is_write")) for i in range(nmaps)]
        logs = [E.int(f"map{i}_logical", 0, 0x7fffffff)
                for i in range(nmaps)]
        out = dict(live={}, problems=[])

        async def main():
            ec = busmodel.make_ec(eth)
            t = eth.Terminal(ec)
            t.position = 1234
            t.fmmu_used = [None] * nslots
            t.pdo_out_off = t.pdo_in_off = 0x1100
            t.pdo_out_sz = t.pdo_in_sz = 8

            async def body():
                cms = []
                for i in range(nmaps):
                    cm = t.map_fmmu(logs[i], kinds[i])
                    try:
                        idx = await cm.__aenter__()
                    except (ValueError, IndexError):
                        out.setdefault("failed", []).append(i)
                        E.prove(len(out["live"]) >= nslots,
                                f"mapping {i} fails only when all "
                                f"{nslots} FMMUs are in use")
                        continue
                    E.prove(isinstance(idx, int) and 0 <= idx < nslots and
                            idx not in out["live"].values(),
                            f"mapping {i} got FMMU {idx}, live mappings use "
                            f"{sorted(out['live'].values())} of {nslots}")
                    out["live"][i] = idx
                    cms.append((i, cm))
                while cms:
                    k = E.choose(len(cms), "which mapping ends next")
                    i, cm = cms.pop(k)
                    await cm.__aexit__(None, None, None)
                    idx = out["live"].pop(i)
                    E.prove(all(t.fmmu_used[j] is not None
                                for j in out["live"].values() if 0 <= j < nslots)
                            and (not 0 <= idx < nslots
                                 or t.fmmu_used[idx] is None
                                 or idx in out["live"].values()),
                            "ending a mapping frees its own FMMU and no other")
            await busmodel.with_bus(ec, bus, body())
        pysym.run_async(main, max_steps=4000)
    return harness


def concurrent_harness(nslots, nmaps):
    """mappings requested by different tasks at the same time (two sync
    groups starting together): every register write suspends the task, as a
    real bus round trip does"""
    def harness():
        eth = pysym.module("ethercat")
        model = busmodel.TerminalModel("t", position=1234)
        bus = busmodel.Bus(eth, [model])
        kinds = [bool(E.bool(f"map{i}_is_write")) for i in range(nmaps)]
        logs = [E.int(f"map{i}_logical", 0, 0x7fffffff)
                for i in range(nmaps)]
        live = {}
        failed = []

        async def main():
            ec = busmodel.make_ec(eth)
            t = eth.Terminal(ec)
            t.position = 1234
            t.fmmu_used = [None] * nslots
            t.pdo_out_off = t.pdo_in_off = 0x1100
            t.pdo_out_sz = t.pdo_in_sz = 8
            release = [asyncio.Event() for _ in range(nmaps)]

            async def user(i):
                try:
                    async with t.map_fmmu(logs[i], kinds[i]) as idx:
                        E.prove(isinstance(idx, int) and 0 <= idx < nslots
                                and idx not in live.values(),
                                f"concurrent mapping {i} got FMMU {idx} while "
                                f"live mappings use {sorted(live.values())} "
                                f"of {nslots}")
                        live[i] = idx
                        await release[i].wait()
                        E.prove(t.fmmu_used[idx] is not None
                                if 0 <= idx < nslots else False,
                                f"FMMU {idx} of live mapping {i} is still "
                                "reserved when it ends")
                        del live[i]
                except (ValueError, IndexError):
                    failed.append(i)

            async def body():
                tasks = [asyncio.ensure_future(user(i)) for i in range(nmaps)]
                for _ in range(20):
                    await asyncio.sleep(0)
                E.prove(len(live) <= nslots, "no more live mappings than FMMUs")
                E.prove(len(live) + len(failed) == nmaps,
                        "every request either holds an FMMU or failed")
                order = list(range(nmaps))
                while order:
                    k = E.choose(len(order), "which mapping ends next")
                    release[order.pop(k)].set()
                    for _ in range(10):
                        await asyncio.sleep(0)
                await asyncio.gather(*tasks)
                E.prove(all(x is None for x in t.fmmu_used),
                        "all FMMUs are free after every mapping ended")
            await busmodel.with_bus(ec, bus, body())
        pysym.run_async(main, max_steps=8000)
    return harness


def worker(args):
    kind, a, b = args
    res = pyrun.new_res()
    if kind == "conc":
        name = f"concurrent: {a} FMMUs, {b} tasks mapping at the same time"
        h = concurrent_harness(a, b)
    elif kind == "step":
        name = f"map_fmmu step: {a} FMMUs, {'write' if b else 'read'}"
        h = step_harness(a, b)
    else:
        name = f"history: {a} FMMUs, {b} nested mappings"
        h = history_harness(a, b)
    try:
        st = pyrun.run("C20", name, h, res,
                       sig=lambda w: w.split("(")[0].strip()[:70])
        res["samples"].append(dict(harness=name, **{
            k: st[k] for k in ("paths", "decisions", "obligations", "queries")}))
    except Exception as ex:
        import traceback
        res["errors"].append(f"{name}: harness exception {ex} "
                             f"{traceback.format_exc()[-400:]}")
    return res


def main(tier, replay_file=None):
    ck = common.Check(
        "C20", tier, "model_checking", FUNCTIONS,
        bounds=dict(inductive_step="one map/unmap from an arbitrary slot "
                                   "table with 1..4 FMMUs, each free or in "
                                   "use, all logical addresses/sizes/offsets "
                                   "symbolic; read and write",
                    histories="real nested mappings: 1..4 FMMUs, up to "
                              + ("3" if tier == "quick" else "4")
                              + " mappings (read/write chosen by the solver), "
                                "ended in every order",
                    concurrency="2..3 tasks requesting mappings of one "
                                "terminal at the same time on the deterministic "
                                "event loop (every register write suspends), "
                                "ended in every order",
                    outside="terminals with more than 4 FMMUs"),
        stubs=["bus model at the datagram interface; FMMU registers are "
               "plain recorded memory"],
        assumptions=["a mapping may fail although a free FMMU exists (not "
                     "required by the statement); it must never use an FMMU "
                     "that is in use or outside the terminal's range"])
    items = [("step", n, w) for n in (1, 2, 3, 4) for w in (True, False)]
    hmax = 3 if tier == "quick" else 4
    items += [("hist", n, m) for n in (1, 2, 3, 4) for m in range(1, hmax + 1)]
    items += [("conc", n, m) for n in (1, 2, 3) for m in (2, 3)]
    for res in common.pmap(worker, items):
        ck.add(res)
    return ck.finish()
