"""C06 -- in-place addition on 4/8-byte variables never loses updates.

Bounded model checking: k instances of the compiled statement `v += amount`
(`v -= amount`) run over a shared map memory; at every step a symbolic
scheduler variable picks which instance executes its next instruction.  The
emitted bytes of the real generator are the transition relation.  For every
schedule, initial value and amounts the final value must be initial + sum of
amounts.
"""
import random

import z3
from z3 import (And, Array, BitVec, BitVecSort, BitVecVal, Extract, If, Not,
                Or, Select, SignExt, ULT, ZeroExt, simplify)

from .. import common, dsl
from ..bpfsym import (ALU, EngineError, Env, FP, STACK, SZ, alu, bv, const_of,
                      decode, disasm, load, merge, run, store)
from ..bpfconc import Fault, Machine

FUNCTIONS = [
    "ebpfcat/ebpf.py:Memory.__iadd__/__isub__ (IAdd)",
    "ebpfcat/ebpf.py:Memory._set (XADD emission)",
    "ebpfcat/ebpf.py:MemoryDesc.__set__/__get__, LocalVar, Negate.calculate",
    "ebpfcat/arraymap.py:ArrayGlobalVarDesc.__set__/__get__, ArrayMap.init",
]
FMTS = ["I", "i", "Q", "q", "x"]
SIZES = {"I": 4, "i": 4, "Q": 8, "q": 8, "x": 8}


def shapes(tier, seed):
    out = []
    ks = [2] if tier == "quick" else [2, 3]
    for k in ks:
        for fmt in FMTS:
            for kind in ("map", "local"):
                for op in ("+", "-"):
                    for amount in ("const", "bigconst", "reg", "var", "expr"):
                        if fmt == "x" and amount == "bigconst":
                            continue
                        if k == 3 and (kind == "local" or amount == "bigconst"):
                            continue
                        out.append(dict(fmt=fmt, kind=kind, op=op,
                                        amount=amount, k=k))
    return out


def sig(s):
    return f"{s['kind']}:{s['fmt']} {s['op']}= {s['amount']} k={s['k']}"


def build(s, with_stmt):
    fmt = s["fmt"]
    m = dsl._am.ArrayMap()
    ns = dict(themap=m, other=m.globalVar("I"), amt=dsl.ebpf.LocalVar(fmt))
    if s["kind"] == "map":
        ns["v"] = m.globalVar(fmt)
    else:
        ns["v"] = dsl.ebpf.LocalVar(fmt)

    def body(e):
        if s["amount"] == "reg":
            view = {"I": "w", "i": "sw", "Q": "r", "q": "sr", "x": "x"}[fmt]
            getattr(e, view)[3] = e.amt
        if not with_stmt:
            return
        if s["amount"] == "const":
            a = 5
        elif s["amount"] == "bigconst":
            a = 0x123456789a
        elif s["amount"] == "reg":
            view = {"I": "w", "i": "sw", "Q": "r", "q": "sr", "x": "x"}[fmt]
            a = getattr(e, view)[3]
        elif s["amount"] == "var":
            a = e.amt
        else:
            a = e.amt * 3 + e.other
        if s["op"] == "+":
            e.v += a
        else:
            e.v -= a
    return dsl.build(ns, body)


def step1(ins, nxt, regs, shared, private):
    """one straight-line instruction -> new (regs, shared, private)"""
    opc, dst, src, off, imm = ins
    cls = opc & 7
    regs = list(regs)

    def where(addr):
        c = const_of(addr)
        if c is None:
            raise EngineError("symbolic address in interleaved statement")
        return FP - STACK <= c < FP

    if cls in (4, 7):
        w = 64 if cls == 7 else 32
        op = ALU[opc >> 4]
        if op == "end":
            raise EngineError("endian op in statement")
        if op == "mov":
            b = regs[src] if opc & 8 else SignExt(32, bv(imm, 32))
            r = b if w == 64 else ZeroExt(32, Extract(31, 0, b))
        else:
            a = regs[dst] if w == 64 else Extract(31, 0, regs[dst])
            if op == "neg":
                b = None
            elif opc & 8:
                b = regs[src] if w == 64 else Extract(31, 0, regs[src])
            else:
                b = SignExt(32, bv(imm, 32)) if w == 64 else bv(imm, 32)
            r = alu(op, a, b, w, off)
            if w == 32:
                r = ZeroExt(32, r)
        regs[dst] = r
    elif cls == 0:
        if opc != 0x18 or src != 0:
            raise EngineError("ld in statement")
        regs[dst] = bv((imm & 0xffffffff) | (nxt[4] & 0xffffffff) << 32)
    elif cls == 1:
        size = SZ[opc & 0x18]
        addr = simplify(regs[src] + bv(off))
        v = load(private if where(addr) else shared, addr, size)
        regs[dst] = ZeroExt(64 - 8 * size, v) if size < 8 else v
    elif cls in (2, 3):
        size = SZ[opc & 0x18]
        addr = simplify(regs[dst] + bv(off))
        val = Extract(8 * size - 1, 0,
                      SignExt(32, bv(imm, 32)) if cls == 2 else regs[src])
        priv = where(addr)
        mem = private if priv else shared
        if opc & 0xe0 == 0xc0:       # atomic add: one indivisible step
            val = load(mem, addr, size) + val
        mem = store(mem, addr, size, val)
        if priv:
            private = mem
        else:
            shared = mem
    else:
        raise EngineError(f"jump/call {opc:#x} inside the statement")
    return regs, shared, private


def check_shape(s, q, res):
    sg = sig(s)
    k = s["k"]
    try:
        eA, codeA, mapsA = build(s, False)
        e, code, maps = build(s, True)
    except (dsl.ebpf.AssembleError, TypeError, NotImplementedError) as ex:
        res["rejected"] = res.get("rejected", 0) + 1
        res.setdefault("reject_kinds", {}).setdefault(
            f"{type(ex).__name__}: {ex}"[:70], []).append(sg)
        return
    res["programs"] += 1
    A, B = decode(codeA), decode(code)
    npre = len(A) - 2
    if A[:npre] != B[:npre] or B[-2:] != A[-2:]:
        res["errors"].append(f"{sg}: cannot isolate the statement")
        return
    stmt = B[npre:len(B) - 2]
    # instruction slots: lddw occupies two
    slots = []
    i = 0
    while i < len(stmt):
        if stmt[i][0] == 0x18:
            slots.append((stmt[i], stmt[i + 1]))
            i += 2
        else:
            slots.append((stmt[i], None))
            i += 1
    n = len(slots)
    fmt, size = s["fmt"], SIZES[s["fmt"]]
    shared0 = Array("shared", BitVecSort(64), BitVecSort(8))
    # per-instance prefix (map lookup, register initialisation) runs before
    # the interleaving starts; it only reads shared memory
    regs, priv = [], []
    for t in range(k):
        env = Env(maps, prefix=f"t{t}_")
        pm = Array(f"stack{t}", BitVecSort(64), BitVecSort(8))
        # prefix executed on a memory that is the private stack overlaid on
        # the shared map area: build by running on `pm` and reading the map
        # base from the lookup model (constant)
        st = env.initial(mem=pm)
        ex = run(A[:npre] + [(0xb7, 0, 0, 0, 0), (0x95, 0, 0, 0, 0)], env, st)
        g, fin = merge([(x.guard, x.state) for x in ex
                        if x.kind == "exit" and x.pc == npre + 1])
        regs.append(list(fin.regs))
        priv.append(fin.mem)
    if s["kind"] == "map":
        vaddr = maps[0].base + e.__dict__["v"]
        v0 = load(shared0, bv(vaddr), size)
    else:
        vaddr = FP + type(e).__dict__["v"].relative_addr
        v0s = [load(priv[t], bv(vaddr), size) for t in range(k)]
    amta = FP + type(e).__dict__["amt"].relative_addr
    otha = maps[0].base + e.__dict__["other"]
    T = n * k
    # Encoding: every instruction (t, j) gets a symbolic time slot tau[t][j]
    # in 0..T-1; slots are pairwise distinct and increase along each
    # instance's program order -- i.e. an arbitrary interleaving at
    # instruction granularity.  Instance-private state (registers, stack) is
    # executed in program order; every access to the shared map memory reads
    # / writes the memory version of its own time slot.
    tau = [[BitVec(f"tau_{t}_{j}", 8) for j in range(n)] for t in range(k)]
    cons = []
    flat = [x for row in tau for x in row]
    for x in flat:
        cons.append(ULT(x, T))
    cons.append(z3.Distinct(*flat))
    for t in range(k):
        for j in range(n - 1):
            cons.append(ULT(tau[t][j], tau[t][j + 1]))
    schs = flat
    events = []      # (t, j, kind, addr, size, value)
    loads = []       # (t, j, addr, size, fresh)
    for t in range(k):
        r, p = regs[t], priv[t]
        for j, (ins, nxt) in enumerate(slots):
            marker = Array(f"sharedprobe_{t}_{j}", BitVecSort(64), BitVecSort(8))
            r2, s2, p2 = step1(ins, nxt, r, marker, p)
            opc = ins[0]
            cls = opc & 7
            if s2 is not marker:              # store to shared memory
                size_ = SZ[opc & 0x18]
                addr = simplify(r[ins[1]] + bv(ins[3]))
                val = Extract(8 * size_ - 1, 0,
                              SignExt(32, bv(ins[4], 32)) if cls == 2
                              else r[ins[2]])
                events.append((t, j, "xadd" if opc & 0xe0 == 0xc0 else "store",
                               addr, size_, val))
            elif cls == 1 and not (FP - STACK <= const_of(simplify(
                    r[ins[2]] + bv(ins[3]))) < FP):
                size_ = SZ[opc & 0x18]
                addr = simplify(r[ins[2]] + bv(ins[3]))
                fresh = BitVec(f"ld_{t}_{j}", 8 * size_)
                loads.append([t, j, addr, size_, fresh, r2, ins[1]])
                r2 = list(r)
                r2[ins[1]] = ZeroExt(64 - 8 * size_, fresh) if size_ < 8 else fresh
            r, p = r2, p2
            res["transitions"] += 1
        regs[t], priv[t] = r, p
    # a shared location that no instance ever writes has its initial value
    # at every time: substitute it for the load's fresh variable
    written = set()
    for (t, j, kind, addr, size_, val) in events:
        c = const_of(addr)
        written.update(range(c, c + size_))
    subst = []
    kept = []
    for (t, j, addr, size_, fresh, _, _) in loads:
        c = const_of(addr)
        if not written & set(range(c, c + size_)):
            subst.append((fresh, load(shared0, bv(c), size_)))
        else:
            kept.append((t, j, addr, size_, fresh))
    loads = kept
    if subst:
        events = [(t, j, kind, addr, size_, z3.substitute(val, *subst))
                  for (t, j, kind, addr, size_, val) in events]
        priv = [z3.substitute(p_, *subst) for p_ in priv]
    # shared memory as explicit byte terms at the (concrete) addresses the
    # statement touches: no array theory in the query
    def byte0(a):
        return Select(shared0, bv(a))
    touched = set()
    for (t, j, kind, addr, size_, val) in events:
        c = const_of(addr)
        if c is None:
            raise EngineError("symbolic shared address")
        touched.update(range(c, c + size_))
    for (t, j, addr, size_, fresh) in loads:
        c = const_of(addr)
        if c is None:
            raise EngineError("symbolic shared address")
        touched.update(range(c, c + size_))
    touched.update(range(vaddr, vaddr + size))
    touched.update(range(otha, otha + 4))
    cur = {a_: byte0(a_) for a_ in touched}

    def ldm(mem, c, size_):
        v = mem[c]
        for i in range(1, size_):
            v = z3.Concat(mem[c + i], v)
        return v
    # Cells that are only ever modified by atomic adds of one size at one
    # address: their value after s steps is exactly initial + the sum of the
    # adds scheduled before s (each atomic add is one indivisible step), which
    # keeps the arithmetic at word level.  Any other kind of write to the
    # cell (plain store, different size) uses the general byte-wise encoding.
    cells = {}
    for ev_ in events:
        c = const_of(ev_[3])
        cells.setdefault(c, []).append(ev_)
    xadd_only = {}
    for c, evs in cells.items():
        sz = {e_[4] for e_ in evs}
        overl = [c2 for c2, e2 in cells.items() if c2 != c and
                 c2 < c + max(sz) and c < c2 + max(x[4] for x in e2)]
        if all(e_[2] == "xadd" for e_ in evs) and len(sz) == 1 and not overl:
            xadd_only[c] = (sz.pop(), evs)
    res.setdefault("encoding", []).append(
        "sum-form" if xadd_only and len(xadd_only) == len(cells) else "general")

    def cell_at(c, size_, stp):
        """value of an xadd-only cell before step stp"""
        v = ldm({a_: byte0(a_) for a_ in range(c, c + size_)}, c, size_)
        for (t, j, kind, addr, sz_, val) in xadd_only[c][1]:
            v = v + If(ULT(tau[t][j], stp), val, bv(0, 8 * size_))
        return v
    general = [e_ for e_ in events if const_of(e_[3]) not in xadd_only]
    for stp in range(T):
        nxt_ = dict(cur)
        for (t, j, kind, addr, size_, val) in general:
            c = const_of(addr)
            v = ldm(cur, c, size_) + val if kind == "xadd" else val
            for i in range(size_):
                nxt_[c + i] = If(tau[t][j] == stp,
                                 Extract(8 * i + 7, 8 * i, v), nxt_[c + i])
        for (t, j, addr, size_, fresh) in loads:
            c = const_of(addr)
            if c in xadd_only and xadd_only[c][0] == size_:
                val_ = cell_at(c, size_, stp)
            elif any(c < c2 + xadd_only[c2][0] and c2 < c + size_
                     for c2 in xadd_only):
                raise EngineError("partial load of an atomic cell")
            else:
                val_ = ldm(cur, c, size_)
            cons.append(z3.Implies(tau[t][j] == stp, fresh == val_))
        cur = nxt_
    for c, (sz_, evs) in xadd_only.items():
        fv = cell_at(c, sz_, T)
        for i in range(sz_):
            cur[c + i] = Extract(8 * i + 7, 8 * i, fv)
    final_mem = cur
    res["states"] += T

    def amount(t):
        raw = load(Array(f"stack{t}", BitVecSort(64), BitVecSort(8)),
                   bv(amta), size)
        a = raw
        if s["amount"] == "const":
            a = bv(5 * (100000 if fmt == "x" else 1), 8 * size)
        elif s["amount"] == "bigconst":
            a = bv(0x123456789a, 8 * size)
        elif s["amount"] == "expr":
            oth = ZeroExt(8 * size - 32, load(shared0, bv(otha), 4)) \
                if size == 8 else load(shared0, bv(otha), 4)
            if fmt == "x":
                oth = oth * bv(100000, 64)
            a = raw * bv(3, 8 * size) + oth
        return a
    total = bv(0, 8 * size)
    for t in range(k):
        total = total + amount(t)
    if s["kind"] == "map":
        final = cell_at(vaddr, size, T) if vaddr in xadd_only and \
            xadd_only[vaddr][0] == size else ldm(final_mem, vaddr, size)
        want = v0 + total if s["op"] == "+" else v0 - total
        bad = final != want
    else:
        bads = []
        for t in range(k):
            f = load(priv[t], bv(vaddr), size)
            w = v0s[t] + amount(t) if s["op"] == "+" else v0s[t] - amount(t)
            bads.append(f != w)
        bad = Or(*bads)
    # `other` is not written by anybody
    frame = ldm(final_mem, otha, 4) != load(shared0, bv(otha), 4)
    for name, f in (("no update is lost on any schedule", bad),
                    ("the other map variable is untouched", frame)):
        res["obligations"] += 1
        r, m = q.check(*cons, f)
        if r == "unsat":
            res["discharged"] += 1
        elif r == "unknown":
            res["undecided"] += 1
            res["undecided_list"].append(f"{sg}: {name}")
        else:
            tv = {(t, j): m.eval(tau[t][j], model_completion=True).as_long()
                  for t in range(k) for j in range(n)}
            schedule = [t for (t, j), _ in sorted(tv.items(),
                                                  key=lambda kv: kv[1])]
            rep = replay(s, e, code, maps, npre, n, slots, schedule, m,
                         shared0, k, vaddr, amta, otha, size)
            res["replayed"] += 1
            if rep is None:
                res["errors"].append(f"{sg}: schedule did not reproduce")
            else:
                res["violations"].append(dict(
                    signature=f"C06|lost-update|{s['kind']}:{s['fmt']}|"
                              f"{s['op']}=|{s['amount']}",
                    what=f"{sg}: {name} fails: {rep}",
                    witness=dict(schedule=schedule, detail=rep),
                    replay=dict(shape=s)))
    # vacuity twin: some complete schedule exists
    r, _ = q.check(*cons)
    res["vacuity"].append((f"a complete schedule exists: {sg}", r == "sat"))
    res["samples"].append(dict(shape=sg, statement=disasm(stmt), slots=n,
                               steps=T, schedule_variables=T))


def replay(s, e, code, maps, npre, n, slots, schedule, model, shared0, k,
           vaddr, amta, otha, size):
    """k concrete machines over one shared memory dict, stepped per the
    schedule"""
    ev = lambda x: model.eval(x, model_completion=True).as_long()
    shared = {}
    mp = maps[0]
    for i in range(mp.area):
        shared[mp.base + i] = ev(Select(shared0, bv(mp.base + i)))
    init_v = sum(shared.get(vaddr + i, 0) << (8 * i) for i in range(size))
    ms = []
    amounts = []
    for t in range(k):
        st = Array(f"stack{t}", BitVecSort(64), BitVecSort(8))
        m = Machine(code, maps)
        priv = {}
        for a in range(FP - 64, FP):
            priv[a] = ev(Select(st, bv(a)))
        m.mem = _Overlay(shared, priv)
        m.pc = 0
        while m.pc < npre:          # run the prefix
            m.step()
        ms.append(m)
    for t in schedule:
        if ms[t].pc >= npre + sum(2 if nx else 1 for _, nx in slots):
            return None
        ms[t].step()
    mask = (1 << (8 * size)) - 1
    out = []
    if s["kind"] == "map":
        final = sum(shared.get(vaddr + i, 0) << (8 * i) for i in range(size))
        # expected by sequential execution of the same instances
        seq = dict((a, b) for a, b in shared.items())
        exp = init_v
        for t in range(k):
            exp = _expected(s, exp, ms[t], amta, otha, size, init_shared=None,
                            other=sum(ev(Select(shared0, bv(otha + i))) << (8 * i)
                                      for i in range(4)))
        if final != exp & mask:
            return (f"initial {init_v:#x}, schedule {schedule}: final "
                    f"{final:#x}, expected {exp & mask:#x}")
        return None
    for t in range(k):
        st = Array(f"stack{t}", BitVecSort(64), BitVecSort(8))
        v0 = sum(ev(Select(st, bv(vaddr + i))) << (8 * i) for i in range(size))
        final = sum(ms[t].mem.priv.get(vaddr + i, 0) << (8 * i)
                    for i in range(size))
        # amt is read from the initial private stack (unchanged by the run)
        exp = _expected(s, v0, ms[t], amta, otha, size, None,
                        sum(ev(Select(shared0, bv(otha + i))) << (8 * i)
                            for i in range(4)))
        if final != exp & mask:
            return (f"instance {t}: local initial {v0:#x} final {final:#x}, "
                    f"expected {exp & mask:#x}")
    return None


def _expected(s, cur, m, amta, otha, size, init_shared, other):
    raw = sum(m.mem.priv.get(amta + i, 0) << (8 * i) for i in range(size))
    fx = 100000 if s["fmt"] == "x" else 1
    if s["amount"] == "const":
        a = 5 * fx
    elif s["amount"] == "bigconst":
        a = 0x123456789a
    elif s["amount"] == "expr":
        a = raw * 3 + other * fx
    else:
        a = raw
    return cur + a if s["op"] == "+" else cur - a


class _Overlay(dict):
    """memory of one instance: private stack over shared map memory"""

    def __init__(self, shared, priv):
        super().__init__()
        self.shared, self.priv = shared, priv

    def _d(self, a):
        return self.priv if FP - STACK <= a < FP else self.shared

    def get(self, a, default=0):
        return self._d(a).get(a, default)

    def __setitem__(self, a, v):
        self._d(a)[a] = v

    def __getitem__(self, a):
        return self._d(a)[a]


def worker(shape):
    q = common.Q(rlimit=200_000_000, timeout_ms=300_000, fallback=False)
    res = dict(obligations=0, discharged=0, undecided=0, programs=0,
               replayed=0, states=0, transitions=0, samples=[], violations=[],
               errors=[], undecided_list=[], vacuity=[])
    try:
        check_shape(shape, q, res)
    except EngineError as ex:
        res["errors"].append(f"{sig(shape)}: engine: {ex}")
    except Exception as ex:
        import traceback
        res["errors"].append(f"{sig(shape)}: harness exception {ex} "
                             f"{traceback.format_exc()[-400:]}")
    res["queries"], res["solver_s"] = q.queries, q.solver_s
    return res


def main(tier, replay_file=None):
    ck = common.Check(
        "C06", tier, "model_checking", FUNCTIONS,
        bounds=dict(instances="2" if tier == "quick" else "2 and 3",
                    granularity="one eBPF instruction per step (XADD is one "
                                "indivisible step, as on the hardware)",
                    schedules="all: one symbolic scheduler variable per step",
                    values="initial value, amounts, all other memory: all values",
                    formats=FMTS, kinds="array-map variable (shared), local "
                                        "variable (per-instance stack)",
                    outside="more than 3 instances; per-CPU maps (each CPU has "
                            "its own copy: no sharing); hash-map variables "
                            "(not Memory objects, see C09)"),
        stubs=["map_lookup_elem array model", "instances share the map value "
               "area and have private registers and stacks"],
        assumptions=["BPF_XADD is atomic (kernel/hardware contract)"])
    sh = shapes(tier, common.seed())
    if replay_file:
        import json
        sh = [json.load(open(replay_file))["replay"]["shape"]]
    rej, kinds = 0, {}
    for res in common.pmap(worker, sh):
        ck.add(res)
        rej += res.get("rejected", 0)
        for kk, v in res.get("reject_kinds", {}).items():
            kinds.setdefault(kk, []).extend(v[:3])
    ck.extra["shapes"] = len(sh)
    ck.extra["rejected_by_generator"] = rej
    ck.extra["reject_kinds"] = {a: b[:4] for a, b in kinds.items()}
    return ck.finish()
