"""C03 -- conditional blocks run exactly the branch the condition selects.

Condition trees are compiled by the real generator into `with` blocks whose
bodies set marker variables; the emitted bytes are executed symbolically and
for ALL operand values each marker must be set iff the reference truth value
of its path condition holds, every other variable must be unchanged, and
execution must always reach the end of the construct.
"""
import itertools
import random

import z3
from z3 import And, BoolVal, Extract, If, Not, Or, ULE, ULT, UGE, UGT

from .. import common, dsl
from ..bpfsym import EngineError, Env, bv, decode, disasm, load, merge, run
from ..bpfconc import Fault, Machine
from ..exprs import (Plan, Ref, SIZES, const_val, leaf_val, leaf_int,
                     stmt_width, pyeval, Outside)

FUNCTIONS = [
    "ebpfcat/ebpf.py:comparison/SimpleComparison.compare/target",
    "ebpfcat/ebpf.py:AndOrComparison.compare/target",
    "ebpfcat/ebpf.py:InvertComparison", "ebpfcat/ebpf.py:AndExpression.__ne__",
    "ebpfcat/ebpf.py:AndComparison.compare/__exit__/Else",
    "ebpfcat/ebpf.py:Comparison.__enter__/__exit__/Else, Elser",
    "ebpfcat/ebpf.py:Expression.__enter__/__exit__/__eq__",
    "ebpfcat/ebpf.py:Memory.__ne__/__invert__/calculate (bit fields)",
    "ebpfcat/ebpf.py:Memory._set, Binary.calculate, Expression.load",
]
CMPS = ["==", "!=", "<", "<=", ">", ">="]
LEAVES_Q = [["L", f] for f in "BhIiQq"] + [["M", "H"], ["M", "q"]] + \
           [["R", v] for v in ("r", "sr", "w", "sw")]
LEAVES_ALL = [["L", f] for f in "BbHhIiQq"] + [["M", f] for f in "BbHhIiQq"] + \
             [["R", v] for v in ("r", "sr", "w", "sw")]
CONSTS = [0, 1, -1, 7, -3, 255, 0x7fffffff, -0x80000000, 0x80000000,
          0xffffffff, 0x123456789a, -(1 << 40)]
MASKS = [1, 0x80, 0x100, 0xff00, 0x80000000, 0x7fffffff, 1 << 40]
BITS = [(0, 1), (5, 1), (7, 1), (3, 4), (0, 8), (6, 2)]


def csig(c):
    k = c[0]
    if k == "cmp":
        return f"({lsig(c[2])}{c[1]}{lsig(c[3])})"
    if k == "truth":
        return f"truth({lsig(c[1])})"
    if k == "mask":
        return f"({lsig(c[1])}&{c[2]:#x})"
    if k == "bit":
        return f"bit{tuple(c[1])}"
    if k == "nbit":
        return f"~bit{tuple(c[1])}"
    if k == "not":
        return f"~{csig(c[1])}"
    return f"({csig(c[1])}{'&' if k == 'and' else '|'}{csig(c[2])})"


def lsig(x):
    from .c01 import shape_sig
    return shape_sig(x)


def bsig(block):
    out = []
    for s in block:
        if s[0] == "mark":
            out.append("m")
        else:
            out.append(f"if{csig(s[1])}{{{bsig(s[2])}}}"
                       + (f"else{{{bsig(s[3])}}}" if s[3] is not None else ""))
    return ";".join(out)


# --------------------------------------------------------------------------
class Builder:
    def __init__(self, block):
        self.block = block
        self.plan = Plan(None, dsl.ebpf, dsl._am)
        self.n = 0
        self.markers = []
        self.bitvars = {}
        self._prep(block, "b")

    def _prep(self, block, path):
        for i, s in enumerate(block):
            p = f"{path}{i}"
            if s[0] == "mark":
                name = self.plan.add_var("L", "B")
                self.markers.append((p, name))
            else:
                self._prepc(s[1], p + "c")
                self._prep(s[2], p + "t")
                if s[3] is not None:
                    self._prep(s[3], p + "e")

    def _prepc(self, c, path):
        k = c[0]
        if k == "cmp":
            self.plan.add_expr(path + "l", c[2])
            self.plan.add_expr(path + "r", c[3])
        elif k in ("truth", "mask"):
            self.plan.add_expr(path + "l", c[1])
        elif k in ("bit", "nbit"):
            name = f"bit{len(self.bitvars)}"
            self.plan.ns[name] = dsl.ebpf.LocalVar(tuple(c[1]))
            self.bitvars[path] = name
        elif k == "not":
            self._prepc(c[1], path + "n")
        else:
            self._prepc(c[1], path + "a")
            self._prepc(c[2], path + "b")

    # DSL emission ---------------------------------------------------------
    def emit(self, e):
        self.plan.emit_inits(e)
        self._emit(e, self.block, "b")

    def _emit(self, e, block, path):
        for i, s in enumerate(block):
            p = f"{path}{i}"
            if s[0] == "mark":
                name = dict(self.markers)[p]
                setattr(e, name, 1)
            else:
                cond = self._cond(e, s[1], p + "c", top=True)
                if s[3] is None:
                    with cond:
                        self._emit(e, s[2], p + "t")
                else:
                    with cond as Else:
                        self._emit(e, s[2], p + "t")
                    with Else:
                        self._emit(e, s[3], p + "e")

    def _cond(self, e, c, path, top=False):
        """top level: the bare expression is used as the condition (`with
        x:`); inside & | ~ the DSL needs an explicit comparison, because &
        between expressions is the bitwise operator"""
        k = c[0]
        P = self.plan
        if k == "cmp":
            a = P._dsl(e, path + "l", c[2])
            b = P._dsl(e, path + "r", c[3])
            import operator
            return {"==": operator.eq, "!=": operator.ne, "<": operator.lt,
                    "<=": operator.le, ">": operator.gt,
                    ">=": operator.ge}[c[1]](a, b)
        if k == "truth":
            x = P._dsl(e, path + "l", c[1])
            return x if top else (x != 0)
        if k == "mask":
            x = P._dsl(e, path + "l", c[1]) & c[2]
            return x if top else (x != 0)
        if k == "bit":
            x = getattr(e, self.bitvars[path])
            return x if top else (x != 0)
        if k == "nbit":
            return ~getattr(e, self.bitvars[path])
        if k == "not":
            return ~self._cond(e, c[1], path + "n")
        a = self._cond(e, c[1], path + "a")
        b = self._cond(e, c[2], path + "b")
        return (a & b) if k == "and" else (a | b)


class CondRef:
    """reference truth values; pre collects the fit precondition"""

    def __init__(self, builder, leafvals, bitvals, W):
        self.b, self.leafvals, self.bitvals, self.W = builder, leafvals, bitvals, W
        self.ref = Ref(builder.plan, leafvals, W)
        self.regions = {}

    @property
    def pre(self):
        return self.ref.pre

    def truth(self, c, path):
        k = c[0]
        R = self.ref
        if k == "cmp":
            a = R.ev(path + "l", c[2])
            b = R.ev(path + "r", c[3])
            p, S, U = R.both(a, b)
            R.pre.append(p)
            op = c[1]
            if op == "==":
                return a.v == b.v
            if op == "!=":
                return a.v != b.v
            s = {"<": a.v < b.v, "<=": a.v <= b.v, ">": a.v > b.v,
                 ">=": a.v >= b.v}[op]
            u = {"<": ULT(a.v, b.v), "<=": ULE(a.v, b.v), ">": UGT(a.v, b.v),
                 ">=": UGE(a.v, b.v)}[op]
            return If(S, s, u)
        if k == "truth":
            a = R.ev(path + "l", c[1])
            R.pre.append(R.own(a))
            return a.v != 0
        if k == "mask":
            a = R.ev(path + "l", c[1])
            R.pre.append(R.own(a))
            if not 0 <= c[2] < (1 << self.W):
                R.pre.append(BoolVal(False))
            return (a.v & bv(c[2])) != 0
        if k in ("bit", "nbit"):
            pos, bits = c[1]
            byte = self.bitvals[path]
            t = (byte & bv(((1 << bits) - 1) << pos, 8)) != 0
            return Not(t) if k == "nbit" else t
        if k == "not":
            return Not(self.truth(c[1], path + "n"))
        a = self.truth(c[1], path + "a")
        b = self.truth(c[2], path + "b")
        return And(a, b) if k == "and" else Or(a, b)

    def expected(self, block, path, guard, out):
        for i, s in enumerate(block):
            p = f"{path}{i}"
            if s[0] == "mark":
                out[p] = guard
            else:
                t = self.truth(s[1], p + "c")
                self.expected(s[2], p + "t", And(guard, t), out)
                if s[3] is not None:
                    self.expected(s[3], p + "e", And(guard, Not(t)), out)


# --------------------------------------------------------------------------
def blocks(tier, seed):
    rnd = random.Random(seed)
    quick = tier == "quick"
    leaves = LEAVES_Q if quick else LEAVES_ALL
    cl = [["C", c] for c in CONSTS]
    out = []
    M = ["mark"]

    def simple(c, els=True):
        return [["if", c, [M], [M] if els else None], M]

    # every comparison operator x operand kinds
    for op in CMPS:
        for a in leaves:
            bs = leaves + cl
            if quick:
                bs = rnd.sample(leaves, 4) + rnd.sample(cl, 4)
            for b in bs:
                out.append(simple(["cmp", op, a, b], rnd.random() < 0.7))
    for a in leaves:
        out.append(simple(["truth", a]))
        out.append(simple(["not", ["truth", a]]))
        for m in (rnd.sample(MASKS, 3) if quick else MASKS):
            out.append(simple(["mask", a, m]))
            out.append(simple(["mask", a, m], False))
            out.append(simple(["not", ["mask", a, m]]))
    for b in BITS:
        out.append(simple(["bit", list(b)]))
        out.append(simple(["bit", list(b)], False))
        if b[1] == 1:
            out.append(simple(["nbit", list(b)]))
        out.append(simple(["not", ["bit", list(b)]]))

    def atom():
        r = rnd.random()
        if r < 0.55:
            return ["cmp", rnd.choice(CMPS), rnd.choice(leaves),
                    rnd.choice(leaves + cl)]
        if r < 0.7:
            return ["mask", rnd.choice(leaves), rnd.choice(MASKS)]
        if r < 0.8:
            return ["truth", rnd.choice(leaves)]
        if r < 0.9:
            return ["bit", list(rnd.choice(BITS))]
        return ["cmp", rnd.choice(CMPS),
                ["bin", rnd.choice(["+", "-", "&"]), rnd.choice(leaves),
                 rnd.choice(leaves + cl)], rnd.choice(cl)]

    def tree(d):
        if d == 0:
            return atom()
        r = rnd.random()
        if r < 0.4:
            return ["and", tree(d - 1), tree(d - 1)]
        if r < 0.8:
            return ["or", tree(d - 1), tree(d - 1)]
        return ["not", tree(d - 1)]

    for _ in range(400 if quick else 4000):
        out.append(simple(tree(rnd.choice([1, 1, 2])), rnd.random() < 0.7))
    # nesting and sequencing
    for _ in range(200 if quick else 2000):
        inner = ["if", tree(rnd.choice([0, 1])), [M],
                 [M] if rnd.random() < 0.5 else None]
        form = rnd.randrange(4)
        if form == 0:
            b = [["if", tree(rnd.choice([0, 1])), [M, inner, M], [M]], M]
        elif form == 1:
            b = [["if", tree(0), [M], [inner, M]], M]
        elif form == 2:
            b = [["if", tree(1), [M], None], M, inner, M]
        else:
            b = [["if", tree(0), [["if", tree(0), [inner], [M]]], None], M]
        out.append(b)
    if not quick:
        for _ in range(1000):
            out.append(simple(tree(3), rnd.random() < 0.7))
    return out


def check_block(block, q, res, want_sample=False):
    sig = bsig(block)
    try:
        B = Builder(block)
        e, code, maps = dsl.build(B.plan.ns, B.emit)
    except (dsl.ebpf.AssembleError, TypeError, NotImplementedError):
        res["rejected"] = res.get("rejected", 0) + 1
        return
    except Exception as ex:
        res["rejected"] = res.get("rejected", 0) + 1
        res.setdefault("reject_kinds", {}).setdefault(
            type(ex).__name__ + ": " + str(ex)[:60], []).append(sig)
        return
    res["programs"] += 1
    insns = decode(code)
    env = Env(maps)
    st0 = env.initial()
    try:
        exits = run(insns, env, st0.copy())
    except EngineError as ex:
        res["errors"].append(f"{sig}: engine: {ex}")
        return
    normal = [x for x in exits if x.kind == "exit" and x.pc == len(insns) - 1]
    if not normal:
        res["errors"].append(f"{sig}: no normal exit")
        return
    g, fin = merge([(x.guard, x.state) for x in normal])
    mem0 = st0.mem
    plan = B.plan
    W = stmt_width(plan)
    leafvals, leafaddr = {}, {}
    for path, i in plan.info.items():
        if i[0] in ("var", "reg"):
            addr, fmt = plan.var_addr(e, i[1] if i[0] == "var" else i[3], maps)
            leafvals[path] = leaf_val(load(mem0, bv(addr), SIZES[fmt]), fmt)
            leafaddr[path] = (addr, fmt)
        else:
            leafvals[path] = const_val(i[1])
    bitvals, bitaddr = {}, {}
    for path, name in B.bitvars.items():
        addr = dsl.bpfsym_FP + type(e).__dict__[name].relative_addr
        bitvals[path] = load(mem0, bv(addr), 1)
        bitaddr[path] = addr
    cr = CondRef(B, leafvals, bitvals, W)
    exp = {}
    cr.expected(block, "b", BoolVal(True), exp)
    base = list(env.assumptions)
    pre = list(cr.pre)
    regions = {k: Or(*v) for k, v in cr.ref.regions.items()}

    # always reaches the end
    res["obligations"] += 1
    r, m = q.check(*base, Not(g))
    if r == "unsat":
        res["discharged"] += 1
    elif r == "sat":
        res["violations"].append(dict(
            signature=f"C03|end|{sig}", what=f"{sig}: execution does not "
            "always continue after the construct", witness=None,
            replay=dict(block=block)))
    else:
        res["undecided"] += 1
        res["undecided_list"].append(f"{sig}: end")

    bad = []
    maddr = {}
    for p, name in B.markers:
        addr, _ = plan.var_addr(e, name, maps)
        maddr[p] = addr
        init = load(mem0, bv(addr), 1)
        bad.append(load(fin.mem, bv(addr), 1) != If(exp[p], bv(1, 8), init))
    # frame: every other declared variable unchanged
    for name, storage, fmt in plan.vars:
        if name in dict((n, 1) for _, n in B.markers):
            continue
        addr, fmt = plan.var_addr(e, name, maps)
        bad.append(load(fin.mem, bv(addr), SIZES[fmt])
                   != load(mem0, bv(addr), SIZES[fmt]))
    for path, addr in bitaddr.items():
        bad.append(load(fin.mem, bv(addr), 1) != load(mem0, bv(addr), 1))
    outside = [Not(v) for v in regions.values()]
    hints = [z3.ULT(lv.v + 16, bv(32)) for p, lv in leafvals.items()
             if plan.info[p][0] != "const"]
    if pre:
        rv_, _ = q.check(*base, *pre, hints=hints)
        if rv_ == "unsat":       # shape outside the property's precondition
            res["vacuous"] = res.get("vacuous", 0) + 1
            return
        res["nonvacuous"] = res.get("nonvacuous", 0) + 1
    res["obligations"] += 1
    r, m = q.check(*base, *pre, Or(*bad), *outside, hints=hints)
    rargs = (block, B, e, code, maps, leafaddr, bitaddr, maddr, mem0, W)
    if r == "unsat":
        res["discharged"] += 1
    elif r == "unknown":
        res["undecided"] += 1
        res["undecided_list"].append(f"{sig}: branches")
    else:
        rep = replay(m, *rargs)
        res["replayed"] += 1
        if rep is None or rep == "outside":
            res["errors"].append(f"{sig}: counterexample did not reproduce "
                                 f"({rep})")
        else:
            res["violations"].append(dict(
                signature=f"C03|branch|{sig}", what=f"{sig}: {rep['summary']}",
                witness=rep, replay=dict(block=block)))
    if regions and r == "unsat":
        res["obligations"] += 1
        r2, m2 = q.check(*base, *pre, Or(*bad), Or(*regions.values()),
                         hints=hints)
        if r2 == "unsat":
            res["discharged"] += 1
        elif r2 == "unknown":
            res["obligations"] -= 1
            res["region_undecided"] = res.get("region_undecided", 0) + 1
        else:
            names = [k for k, v in regions.items()
                     if z3.is_true(m2.eval(v, model_completion=True))]
            rep = replay(m2, *rargs)
            res["replayed"] += 1
            if rep is None or rep == "outside":
                res["errors"].append(f"{sig}: region counterexample did not "
                                     f"reproduce ({rep})")
            else:
                res["discharged"] += 1
                res["violations"].append(dict(
                    signature=f"C03|region|{names[0]}",
                    what=f"{sig}: {rep['summary']}", witness=rep,
                    replay=dict(block=block)))
    if want_sample:
        res["samples"].append(dict(
            construct=sig, width=W, program=disasm(insns),
            obligation="forall initial memory: pre => each marker set iff "
                       "its path condition holds; other variables unchanged; "
                       "end always reached", result=r))


# -- concrete replay ---------------------------------------------------------
def py_truth(c, path, leafints, bitbytes, W):
    k = c[0]
    if k == "cmp":
        A = pyeval(c[2], path + "l", leafints, W)
        Bv = pyeval(c[3], path + "r", leafints, W)
        a, b = next(iter(A)), next(iter(Bv))
        fs = lambda v: -(1 << (W - 1)) <= v < (1 << (W - 1))
        fu = lambda v: 0 <= v < (1 << W)
        if not ((fs(a) and fs(b)) or (fu(a) and fu(b))):
            raise Outside("cmp")
        import operator
        return {"==": operator.eq, "!=": operator.ne, "<": operator.lt,
                "<=": operator.le, ">": operator.gt,
                ">=": operator.ge}[c[1]](a, b)
    if k == "truth":
        return next(iter(pyeval(c[1], path + "l", leafints, W))) != 0
    if k == "mask":
        return (next(iter(pyeval(c[1], path + "l", leafints, W))) & c[2]) != 0
    if k in ("bit", "nbit"):
        pos, bits = c[1]
        t = (bitbytes[path] >> pos) & ((1 << bits) - 1) != 0
        return (not t) if k == "nbit" else t
    if k == "not":
        return not py_truth(c[1], path + "n", leafints, bitbytes, W)
    a = py_truth(c[1], path + "a", leafints, bitbytes, W)
    b = py_truth(c[2], path + "b", leafints, bitbytes, W)
    return (a and b) if k == "and" else (a or b)


def py_expected(block, path, guard, leafints, bitbytes, W, out):
    for i, s in enumerate(block):
        p = f"{path}{i}"
        if s[0] == "mark":
            out[p] = guard
        else:
            t = py_truth(s[1], p + "c", leafints, bitbytes, W)
            py_expected(s[2], p + "t", guard and t, leafints, bitbytes, W, out)
            if s[3] is not None:
                py_expected(s[3], p + "e", guard and not t, leafints, bitbytes,
                            W, out)


def replay(model, block, B, e, code, maps, leafaddr, bitaddr, maddr, mem0, W):
    mem, leafints, bitbytes = {}, {}, {}

    def byte(addr):
        return model.eval(z3.Select(mem0, bv(addr)),
                          model_completion=True).as_long()
    for path, (addr, fmt) in leafaddr.items():
        raw = bytes(byte(addr + i) for i in range(SIZES[fmt]))
        for i, b in enumerate(raw):
            mem[addr + i] = b
        leafints[path] = leaf_int(raw, fmt)
    for path, i in B.plan.info.items():
        if i[0] == "const":
            leafints[path] = i[1]
    for path, addr in bitaddr.items():
        mem[addr] = bitbytes[path] = byte(addr)
    for p, addr in maddr.items():
        mem[addr] = 0
    exp = {}
    try:
        py_expected(block, "b", True, leafints, bitbytes, W, exp)
    except Outside:
        return "outside"
    m = Machine(code, maps, mem=mem)
    try:
        m.run()
    except Fault as ex:
        return dict(summary=f"fault {ex}")
    got = {p: m.ld(a, 1) == 1 for p, a in maddr.items()}
    changed = [p for p, (a, f) in leafaddr.items()
               if any(m.mem.get(a + i, 0) != mem[a + i] for i in range(SIZES[f]))]
    if got == exp and not changed:
        return None
    ins = {p: v for p, v in leafints.items() if B.plan.info[p][0] != "const"}
    return dict(summary=f"inputs {ins} bits {bitbytes}: markers set "
                        f"{sorted(p for p, v in got.items() if v)}, expected "
                        f"{sorted(p for p, v in exp.items() if v)}"
                        + (f"; operands changed {changed}" if changed else ""),
                inputs=ins)


def worker(args):
    chunk, sample_every = args
    q = common.Q()
    res = dict(obligations=0, discharged=0, undecided=0, programs=0,
               replayed=0, samples=[], violations=[], errors=[],
               undecided_list=[], vacuity=[])
    for n, block in chunk:
        try:
            check_block(block, q, res, want_sample=(n % sample_every == 0))
        except Exception as ex:
            import traceback
            res["errors"].append(f"{bsig(block)}: harness exception "
                                 f"{type(ex).__name__}: {ex} "
                                 f"{traceback.format_exc()[-400:]}")
    res["queries"] = q.queries
    res["solver_s"] = q.solver_s
    return res


def main(tier, replay_file=None):
    ck = common.Check(
        "C03", tier, "translation_validation", FUNCTIONS,
        bounds=dict(
            condition_depth="atoms exhaustive over comparison operators x "
                            "operand kinds; & | ~ trees to depth 2"
                            + ("" if tier == "quick" else " (3)") + ", seeded",
            nesting="with/Else nested to depth 3, sequenced constructs",
            operand_values="all (whole initial stack/map memory symbolic)",
            outside="deeper trees; fixed-point comparisons (see C02)"),
        stubs=["create_map/mmap recording stubs; array map lookup model"],
        assumptions=["ISA step function vf/bpfsym.py; replay on vf/bpfconc.py "
                     "with Python integer comparison as oracle",
                     "W = narrowest width over all operands of the construct "
                     "(conservative: never larger than the width of one atom)"])
    if replay_file:
        import json
        bl = [json.load(open(replay_file))["replay"]["block"]]
    else:
        bl = blocks(tier, common.seed())
    items = list(enumerate(bl))
    nchunks = common.NCPU * 6
    chunks = [(items[i::nchunks], max(1, len(items) // 10))
              for i in range(nchunks)]
    common.prove_lemmas(ck)
    rej, kinds = 0, {}
    vac = nonvac = 0
    for res in common.pmap(worker, [c for c in chunks if c[0]]):
        ck.add(res)
        vac += res.get("vacuous", 0)
        nonvac += res.get("nonvacuous", 0)
        rej += res.get("rejected", 0)
        for k, v in res.get("reject_kinds", {}).items():
            kinds.setdefault(k, []).extend(v[:3])
    ck.extra["constructs"] = len(bl)
    ck.extra["rejected_by_generator"] = rej
    ck.extra["generator_crashes"] = {k: v[:3] for k, v in kinds.items()}
    ck.extra["shapes_with_unsatisfiable_precondition_skipped"] = vac
    ck.extra["shapes_with_satisfiable_precondition"] = nonvac
    ck.vacuity.append(("preconditions are satisfiable on the shapes counted", nonvac > 0 or bool(replay_file)))
    return ck.finish()
