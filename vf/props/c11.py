"""C11 -- assembled EtherCAT frames are well-formed with exact datagram positions.

The real Packet.append / assemble / full and SterilePacket.append /
append_writer / sterile run symbolically: every datagram has a symbolic data
length (0..1600), symbolic content, index, address fields and working-counter
preset; the frame index and ethertype are symbolic.  The assembled rope is
parsed by an independent walker written from ETG.1000.4.
"""
import random

import z3

from .. import common, pyrun, pysym
from ..pysym import E, SInt, bvv

FUNCTIONS = ["ebpfcat/ethercat.py:Packet.__init__/append/assemble/full",
             "ebpfcat/ebpfcat.py:SterilePacket.__init__/append/"
             "append_writer/sterile"]
MAXLEN = 1600


def shapes(tier):
    out = []
    ks = [1, 2, 3] if tier == "quick" else [1, 2, 3, 4, 5]
    for k in ks:
        for addr in ("pos", "logical", "mixed"):
            # at most four symbolic lengths (five exhaust the path budget)
            out.append(dict(k=k, sym=list(range(min(k, 4))), addr=addr,
                            sterile=False))
        # SterilePacket keys a dict by datagram position: lengths are
        # enumerated (contents and all header fields stay symbolic)
        for lens in ([0, 1, 7], [34, 0, 2], [1400, 60, 1], [5, 5, 5]):
            out.append(dict(k=k, sym=[], lens=lens, addr="mixed", sterile=True))
    # around the 15-datagram limit: two symbolic lengths, the rest 0/1 bytes
    for k in (14, 15, 16):
        out.append(dict(k=k, sym=[0, k - 1], addr="pos", sterile=False))
    if tier != "quick":
        out.append(dict(k=16, sym=[], lens=[1, 0], addr="mixed", sterile=True))
    return out


def sig(s):
    return (f"{'sterile ' if s['sterile'] else ''}frame of {s['k']} datagram(s), "
            f"symbolic lengths {s['sym']}"
            + (f", lengths {s['lens']}" if s.get('lens') else "")
            + f", addressing {s['addr']}")


def u16(f, pos):
    v, = pysym.sym_unpack_from("<H", f, pos)
    return v


def make_harness(s):
    k = s["k"]

    def harness():
        sym = not E.concrete
        if s["sterile"]:
            mod = pysym.module("ebpfcat")
            p = mod.SterilePacket()
            eth = pysym.module("ethercat")
        else:
            eth = pysym.module("ethercat")
            p = eth.Packet()
        cmds = [eth.ECCmd.FPRD, eth.ECCmd.FPWR, eth.ECCmd.LRW, eth.ECCmd.APRD,
                eth.ECCmd.LWR, eth.ECCmd.NOP]
        dg = []
        accepted = 0
        for i in range(k):
            if i in s["sym"]:
                n = E.int(f"n{i}", 0, MAXLEN)
            elif s.get("lens"):
                n = s["lens"][i % len(s["lens"])]
            else:
                n = i % 2
            d = E.bytes(f"d{i}", n)
            idx = E.int(f"idx{i}", bits=8)
            cmd = cmds[i % len(cmds)]
            logical = s["addr"] == "logical" or (s["addr"] == "mixed" and i % 2)
            if logical:
                addr = (E.int(f"log{i}", bits=32, signed=True),)
            else:
                addr = (E.int(f"adp{i}", bits=16, signed=True),
                        E.int(f"ado{i}", bits=16))
            wkc = E.int(f"wkc{i}", bits=16)
            size_before, count_before = p.size, len(p.data)
            writer = s["sterile"] and i % 2 == 0
            try:
                if s["sterile"]:
                    start = p.size
                    (p.append_writer if writer else p.append)(
                        cmd, d, idx, *addr, counter=wkc)
                    pos = (start + 10, p.size - 2)
                else:
                    pos = p.append(cmd, d, idx, *addr, wkc=wkc)
            except OverflowError:
                fits = pysym.land(size_before + n + 12 <= 1500,
                                  count_before < 15)
                E.prove(pysym.lnot(fits),
                        f"datagram {i} rejected only if it does not fit")
                E.prove(pysym.land(p.size == size_before,
                                   len(p.data) == count_before),
                        "a rejected datagram leaves the packet unchanged")
                break
            fits = (size_before + n + 12 <= 1500)
            E.prove(fits, f"datagram {i} accepted only if it fits in 1500 bytes")
            E.prove(count_before < 15, f"datagram {i} accepted only below "
                                       "the 15 datagram limit")
            E.prove(pysym.land(pos[0] == size_before + 10,
                               pos[1] - pos[0] == n, p.size == pos[1] + 2),
                    f"datagram {i}: reported data position and size accounting")
            dg.append(dict(n=n, d=d, idx=idx, cmd=cmd, addr=addr, wkc=wkc,
                           pos=pos, writer=writer, logical=logical))
            accepted += 1
        if not dg:
            return
        index = E.int("index", bits=32, signed=True)
        et = E.int("ethertype", bits=16)
        f = p.assemble(index, et)
        size = p.size
        E.prove(size <= 1500, "frame within the maximum size")
        E.prove(pysym.sym_len(f) == pysym.ite(size >= 46, size, 46),
                "frame length = payload, padded to the Ethernet minimum")
        hdr = u16(f, 0)
        E.prove(hdr & 0x7ff == size - 2, "header length = payload length")
        E.prove(hdr & 0xf000 == 0x1000, "header type = EtherCAT commands")
        c0, i0, a0, l0, irq0, e0, w0 = pysym.sym_unpack_from("<BBiHHHH", f, 2)
        E.prove(pysym.land(c0 == 0, i0 == 0, a0 == index, l0 == 0x8002,
                           irq0 == 0, e0 == et, w0 == 0),
                "identification datagram carries index and ethertype")
        # independent walk over the datagrams
        pos = 16
        for i, g in enumerate(dg):
            if g["logical"]:
                c, ix, ad, ln, irq = pysym.sym_unpack_from("<BBiHH", f, pos)
                okaddr = ad == g["addr"][0]
            else:
                c, ix, ap, ao, ln, irq = pysym.sym_unpack_from("<BBhHHH", f, pos)
                okaddr = pysym.land(ap == g["addr"][0], ao == g["addr"][1])
            E.prove(c == g["cmd"].value, f"datagram {i}: command")
            E.prove(ix == g["idx"], f"datagram {i}: index")
            E.prove(okaddr, f"datagram {i}: address")
            E.prove(ln & 0x7ff == g["n"], f"datagram {i}: data length")
            E.prove((ln >> 15) == (1 if i < len(dg) - 1 else 0),
                    f"datagram {i}: 'more' flag set on all but the last")
            E.prove(pysym.land(ln & 0x7800 == 0, irq == 0),
                    f"datagram {i}: reserved bits and irq zero")
            E.prove(g["pos"][0] == pos + 10, f"datagram {i}: data starts at "
                    "the reported position")
            E.prove(u16(f, g["pos"][1]) == g["wkc"],
                    f"datagram {i}: working counter at the reported position")
            # data bytes: one symbolic probe index covers every offset
            if sym and isinstance(g["n"], SInt):
                j = SInt(z3.BitVec(f"probe{i}", 64))
                with pysym.scope():
                    c_ = z3.And(j.e >= 0, j.e < g["n"].e)
                    if E.feasible(c_):
                        E.solver.add(c_)
                        E.prove(f[g["pos"][0] + j] == g["d"][j],
                                f"datagram {i}: data bytes at the reported "
                                "position")
            else:
                n_ = int(g["n"])
                E.prove(pysym.beq(f[g["pos"][0]:g["pos"][0] + n_], g["d"]),
                        f"datagram {i}: data bytes at the reported position")
            pos = pos + 12 + g["n"]
        E.prove(pos == size, "datagrams fill the payload exactly")
        if s["sterile"]:
            st = p.sterile(index, et)
            E.prove(pysym.sym_len(st) == pysym.sym_len(f), "sterile: same length")
            walk = 16
            for i, g in enumerate(dg):
                c = st[walk]
                E.prove(c == (0 if g["writer"] else g["cmd"].value),
                        f"sterile: datagram {i} command is "
                        + ("NOP" if g["writer"] else "unchanged"))
                walk = walk + 12 + g["n"]
            if sym:
                j = SInt(z3.BitVec("sprobe", 64))
                with pysym.scope():
                    conds = [j.e >= 0, j.e < pysym.lift(pysym.sym_len(f))]
                    w2 = 16
                    for g in dg:
                        if g["writer"]:
                            conds.append(j.e != pysym.lift(w2))
                        w2 = w2 + 12 + g["n"]
                    if E.feasible(z3.And(*conds)):
                        E.solver.add(*conds)
                        E.prove(st[j] == f[j], "sterile: every byte except the "
                                               "writers' command equals the "
                                               "assembled frame")
            else:
                exp = bytearray(f)
                w2 = 16
                for g in dg:
                    if g["writer"]:
                        exp[w2] = 0
                    w2 = w2 + 12 + g["n"]
                E.prove(bytes(st) == bytes(exp), "sterile: every byte except "
                        "the writers' command equals the assembled frame")
    return harness


def worker(args):
    n, s = args
    res = pyrun.new_res()
    try:
        st = pyrun.run("C11", sig(s), make_harness(s), res,
                       sig=lambda w: w.split(":")[-1].strip()[:80],
                       maxtime=900)
        res["samples"].append(dict(shape=sig(s), **{
            k: st[k] for k in ("paths", "aborted", "decisions", "obligations",
                               "queries", "solver_s", "wall")}))
    except Exception as ex:
        import traceback
        res["errors"].append(f"{sig(s)}: harness exception {ex} "
                             f"{traceback.format_exc()[-400:]}")
    return res


def main(tier, replay_file=None):
    ck = common.Check(
        "C11", tier, "model_checking", FUNCTIONS,
        bounds=dict(datagrams="1..3 (thorough 1..5) datagrams with up to four "
                              "data lengths symbolic 0..1600 (a fifth datagram "
                              "has a fixed small length); 14/15/16 datagrams "
                              "with two symbolic lengths (count limit)",
                    fields="command from 6 ECCmd members; index, position/"
                           "offset or logical address, working-counter preset, "
                           "frame index, ethertype, all data bytes: symbolic",
                    outside="more than 4 symbolic-length datagrams in one frame"),
        stubs=["struct model of vf/pysym.py"],
        assumptions=["frame parser written from ETG.1000.4: 2-byte header "
                     "(11-bit length, type 1), 10-byte datagram headers, M flag "
                     "bit 15 of the length word, 2-byte working counter"])
    sh = shapes(tier)
    for res in common.pmap(worker, list(enumerate(sh))):
        ck.add(res)
    ck.extra["shapes"] = len(sh)
    return ck.finish()
