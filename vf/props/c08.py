"""C08 -- array-map variables read back the same on both sides.

Seeded random declaration sets: an array map (and sometimes a per-CPU array
map) whose variables of random formats are declared in a base class, the
program class and one subprogram class with one or two instances.

* layout: every variable's bytes [position, position+size) lie inside the
  map and are disjoint from every other variable's;
* program side: the emitted bytes of a program that reads some variables
  (into 64-bit cells) and writes others (from 64-bit cells) are executed
  symbolically over a symbolic map (engine A): reads give the little-endian
  content of the variable's own bytes with the format's sign, writes put the
  value's low bytes there, no other byte of any map changes;
* Python side: the real descriptors (ArrayGlobalVarDesc, PerCPUVar) run
  symbolically on symbolic map contents (engine B): a written value's
  struct encoding lands in exactly the variable's bytes, a read decodes
  exactly them; per-CPU variables give one value per CPU, CPU k's copy
  being at k * (value size rounded up to 8).

Both sides are compared with the same byte-level reference, so a value
written on one side is read unchanged on the other.
"""
import random
import struct

import z3
from z3 import And, BitVec, Extract, Not, Or, Select, SignExt, UGE, ULT, ZeroExt

from .. import common, pyrun, pysym
from ..pysym import E

FUNCTIONS = ["ebpfcat/arraymap.py:ArrayMap.collect/init/create_map",
             "ebpfcat/arraymap.py:ArrayGlobalVarDesc.__get__/__set__/unpack/"
             "fmt_addr",
             "ebpfcat/arraymap.py:PerCPUVarDesc, PerCPUVar.__getitem__, "
             "PerCPUReader.read, PerCPUArrayMap.create_map",
             "ebpfcat/ebpf.py:MemoryDesc.__get__/__set__, Memory.calculate/_set "
             "(map variables), EBPF.__init__ (map initialisation)"]
SINGLE = "bBhHiIqQ"
MULTI = ["2H", "Bh", "3B", "Ib", "2q",
         # one element, spelled with a byte order: still a scalar in Python
         ">H", "<i", "!I", "<Q", ">h", "!2H"]
CPUS = 4


def gen_spec(seed):
    rng = random.Random(seed)
    percpu = rng.random() < 0.4
    maps = ["m"] + (["pc"] if percpu else [])
    vars_ = []

    def add(owner, n):
        for j in range(n):
            r = rng.random()
            fmt = rng.choice(SINGLE) if r < 0.7 else \
                ("x" if r < 0.8 else rng.choice(MULTI))
            mp = rng.choice(maps)
            role = "N"
            if len(fmt) == 1:
                role = rng.choice("RRWWN")
            vars_.append(dict(owner=owner, name=f"{owner}{j}", map=mp, fmt=fmt,
                              role=role))
    add("b", rng.randint(0, 2))
    add("p", rng.randint(1, 3))
    ns = rng.randint(0, 2)
    add("s", ns)
    return dict(seed=seed, maps=maps, vars=vars_,
                sub_instances=rng.randint(1, 2) if ns else 0,
                override=rng.random() < 0.3,
                maps_in=rng.choice(["base", "prog"]))


def aux_fmt(v):
    if v["fmt"] == "x":
        return "x"
    return "q" if v["fmt"].islower() else "Q"


def build(ebpf_mod, am_mod, spec):
    """classes from the given modules; returns (program, subs, cells) where
    cells = [(object, var dict, aux name or None)]"""
    maps = {"m": am_mod.ArrayMap()}
    if "pc" in spec["maps"]:
        maps["pc"] = am_mod.PerCPUArrayMap()

    def decls(owner):
        ns = {}
        for v in spec["vars"]:
            if v["owner"] != owner:
                continue
            ns[v["name"]] = maps[v["map"]].globalVar(v["fmt"])
            if v["role"] != "N":
                ns["x_" + v["name"]] = maps[v["map"]].globalVar(aux_fmt(v))
        return ns

    def emit(obj, owner):
        for v in spec["vars"]:
            if v["owner"] == owner and v["role"] == "R":
                setattr(obj, "x_" + v["name"], getattr(obj, v["name"]))
        for v in spec["vars"]:
            if v["owner"] == owner and v["role"] == "W":
                setattr(obj, v["name"], getattr(obj, "x_" + v["name"]))

    base_ns = dict(maps) if spec["maps_in"] == "base" else {}
    base_ns.update(decls("b"))
    Base = type("Base", (ebpf_mod.EBPF,), base_ns)
    pns = decls("p")
    if spec["maps_in"] == "prog":
        pns.update(maps)
    if spec["override"] and any(v["owner"] == "b" for v in spec["vars"]):
        # the program class declares a variable under a name of its base
        v0 = [v for v in spec["vars"] if v["owner"] == "b"][0]
        pns[v0["name"]] = maps[v0["map"]].globalVar(v0["fmt"])
    Prog = type("Prog", (Base,), pns)
    sns = decls("s")
    sns["program"] = lambda self: emit(self, "s")
    Sub = type("Sub", (ebpf_mod.SubProgram,), sns)
    subs = [Sub() for _ in range(spec["sub_instances"])]
    return Base, Prog, Sub, subs, maps, emit


def cells_of(spec, prog, subs):
    out = []
    for v in spec["vars"]:
        objs = subs if v["owner"] == "s" else [prog]
        for o in objs:
            out.append((o, v))
    return out


def fmt_items(fmt):
    """[(letter, offset)] of a struct format in native mode"""
    if fmt == "x":
        return [("q", 0)]
    items, rep = [], ""
    letters = []
    pre = ""
    if fmt[0] in "<>!=":
        pre, fmt = fmt[0], fmt[1:]
    for ch in fmt:
        if ch.isdigit():
            rep += ch
        else:
            letters += [ch] * int(rep or 1)
            rep = ""
    off = 0
    for i, ch in enumerate(letters):
        w = struct.calcsize(pre + ch)
        start = struct.calcsize(pre + "".join(letters[:i + 1])) - w
        items.append((pre + ch, start))
    return items


def layout(spec, prog, subs, mapobjs, sizes):
    """[(map, start, size, label)] for all variables incl. auxiliaries and
    the problems found"""
    spans, probs = [], []
    for o, v in cells_of(spec, prog, subs):
        names = [v["name"]] + (["x_" + v["name"]] if v["role"] != "N" else [])
        for n in names:
            fmt = v["fmt"] if n == v["name"] else aux_fmt(v)
            size = 8 if fmt == "x" else struct.calcsize(fmt)
            if n not in o.__dict__:
                probs.append(f"variable {n} has no position")
                continue
            spans.append((v["map"], o.__dict__[n], size,
                          f"{type(o).__name__}.{n}#{id(o) % 1000}"))
    for mp in spec["maps"]:
        s = sorted(x for x in spans if x[0] == mp)
        for a, b in zip(s, s[1:]):
            if a[1] + a[2] > b[1]:
                probs.append(f"variables {a[3]} and {b[3]} share bytes of "
                             f"map {mp}")
        for a in s:
            if a[1] + a[2] > sizes[mp]:
                probs.append(f"variable {a[3]} lies outside map {mp}")
    return spans, probs


# ------------------------------------------------------------ program side
def make_program(spec):
    from .. import dsl
    import ebpfcat.arraymap as am
    reg = dsl.new_registry()
    Base, Prog, Sub, subs, mapobjs, emit = build(dsl.ebpf, am, spec)
    e = Prog(dsl.ProgType.XDP, "GPL", subprograms=subs)
    emit(e, "b")
    emit(e, "p")
    for s in subs:
        s.program()
    e.r0 = 0
    e.exit()
    code = e.assemble()
    return e, subs, mapobjs, code, list(reg.maps)


def program_side(seed, q, res):
    from .. import dsl
    from ..bpfsym import Env, bv, decode, load, merge, run
    spec = gen_spec(seed)
    name = f"declaration set seed {seed} (program side)"
    try:
        e, subs, mapobjs, code, maps = make_program(spec)
    except Exception as ex:
        res["obligations"] += 1
        res["violations"].append(dict(
            signature=f"C08|program cannot be generated: {type(ex).__name__}",
            what=f"{name}: generating the program fails with "
                 f"{type(ex).__name__}: {ex}", witness=dict(spec=spec),
            replay=dict(seed=seed)))
        return
    res["programs"] += 1
    by = {}
    for mname, mo in mapobjs.items():
        for mi in maps:
            if getattr(mo, "size", None) == mi.value_size and \
                    (mi.kind == "percpu_array") == (mname == "pc") and \
                    mi not in by.values():
                by[mname] = mi
                break
    used = {v["map"] for v in spec["vars"]}
    if set(by) != used:
        res["errors"].append(f"{name}: maps {sorted(used)} vs created "
                             f"{[(m.kind, m.value_size) for m in maps]}")
        return
    sizes = {k: m.value_size for k, m in by.items()}
    spans, probs = layout(spec, e, subs, mapobjs, sizes)
    for p in probs:
        res["obligations"] += 1
        res["violations"].append(dict(signature=f"C08|layout|{p.split()[0]} "
                                                f"{p.split()[-4:]}"[:70],
                                      what=f"{name}: {p}",
                                      witness=dict(spec=spec),
                                      replay=dict(seed=seed)))
    res["obligations"] += 1
    res["discharged"] += 1 if not probs else 0
    if probs:
        return
    insns = decode(code)
    env = Env(maps)
    st0 = env.initial()
    exits = run(insns, env, st0.copy())
    g, fin = merge([(x.guard, x.state) for x in exits if x.kind == "exit"])
    mem0 = st0.mem
    base = list(env.assumptions) + [g]
    obl = [("the program ends normally", "end", [Not(g)])]
    written = []
    for o, v in cells_of(spec, e, subs):
        if v["role"] == "N":
            continue
        mb = by[v["map"]].base
        p, xa = mb + o.__dict__[v["name"]], mb + o.__dict__["x_" + v["name"]]
        w = 8 if v["fmt"] == "x" else struct.calcsize(v["fmt"])
        label = f"{v['name']} ({v['fmt']} in {v['map']})"
        if v["role"] == "R":
            raw = load(mem0, bv(p), w)
            ext = raw if w == 8 else \
                (SignExt if v["fmt"].islower() else ZeroExt)(64 - 8 * w, raw)
            obl.append((f"{label}: the program reads the variable's own "
                        "bytes with the format's sign", "var",
                        [load(fin.mem, bv(xa), 8) != ext]))
            written.append((xa, 8))
        else:
            src = load(mem0, bv(xa), w)
            obl.append((f"{label}: the program stores into the variable's "
                        "own bytes", "var", [load(fin.mem, bv(p), w) != src]))
            written.append((p, w))
    j = BitVec("c08_j", 64)
    inmaps = Or(*[And(UGE(j, bv(m.base)), ULT(j, bv(m.base + m.area)))
                  for m in by.values()])
    outside = [Or(ULT(j, bv(s)), UGE(j, bv(s + w))) for s, w in written]
    obl.append(("no other byte of any map changes", "var",
                [inmaps] + outside + [Select(fin.mem, j) != Select(mem0, j)]))
    for pc, gg, ok, text in env.safety:
        obl.append((f"pc {pc}: {text} inside region", "safe", [gg, Not(ok)]))
    for oname, kind, fs in obl:
        res["obligations"] += 1
        r, mdl = q.check(*(list(env.assumptions) if kind != "var" else base),
                         *fs)
        if r == "unsat":
            res["discharged"] += 1
        elif r == "unknown":
            res["undecided"] += 1
            res["undecided_list"].append(f"{name}: {oname}")
        else:
            rep = replay_prog(mdl, spec, code, maps, by, mem0, e, subs)
            res["replayed"] += 1
            if rep is None:
                res["errors"].append(f"{name}: '{oname}' counterexample did "
                                     "not reproduce")
            else:
                res["violations"].append(dict(
                    signature="C08|program|" + oname.split(":")[-1].strip()[:60],
                    what=f"{name}: {oname} fails: {rep}",
                    witness=dict(spec=spec, summary=rep),
                    replay=dict(seed=seed)))
    r, _ = q.check(*base)
    res["vacuity"].append((f"{name}: normal end reachable", r == "sat"))
    res["samples"].append(dict(
        seed=seed, side="program", instructions=len(insns),
        maps=[(m.kind, m.value_size) for m in maps],
        variables=[(v["owner"], v["fmt"], v["map"], v["role"])
                   for v in spec["vars"]], sub_instances=spec["sub_instances"]))


def replay_prog(model, spec, code, maps, by, mem0, e, subs):
    from ..bpfsym import bv
    from ..bpfconc import Fault, Machine
    ev = lambda x: model.eval(x, model_completion=True)
    mem = {}
    for m in by.values():
        for i in range(m.area):
            mem[m.base + i] = ev(Select(mem0, bv(m.base + i))).as_long()
    mach = Machine(code, maps, mem=dict(mem))
    try:
        r = mach.run()
    except Fault as ex:
        return f"fault {ex}"
    if r[0] != "exit":
        return f"program ends with {r}"
    probs, touched = [], set()
    for o, v in cells_of(spec, e, subs):
        if v["role"] == "N":
            continue
        mb = by[v["map"]].base
        p, xa = mb + o.__dict__[v["name"]], mb + o.__dict__["x_" + v["name"]]
        w = 8 if v["fmt"] == "x" else struct.calcsize(v["fmt"])
        if v["role"] == "R":
            want = int.from_bytes(bytes(mem[p + i] for i in range(w)), "little",
                                  signed=v["fmt"].islower() or v["fmt"] == "x")
            got = mach.ld(xa, 8)
            touched.update(range(xa, xa + 8))
            if got != want % 2 ** 64:
                probs.append(f"{v['name']} ({v['fmt']}): program read "
                             f"{got:#x}, the map holds {want}")
        else:
            src = bytes(mem[xa + i] for i in range(w))
            got = bytes(mach.ld(p + i, 1) for i in range(w))
            touched.update(range(p, p + w))
            if got != src:
                probs.append(f"{v['name']} ({v['fmt']}): map gets "
                             f"{got.hex()}, value {src.hex()}")
    for a, b in mem.items():
        if a not in touched and mach.ld(a, 1) != b:
            probs.append(f"map byte {a:#x} changed {b:#x} -> "
                         f"{mach.ld(a, 1):#x}")
            break
    return "; ".join(probs[:3]) or None


# ------------------------------------------------------------- Python side
def fresh(name, fmt):
    if fmt == "x":
        return None
    vals = []
    for i, (ch, off) in enumerate(fmt_items(fmt)):
        w = struct.calcsize(ch)
        if ch[-1] == "Q":
            vals.append(E.int(f"{name}_{i}", 0, 2 ** 63 - 1))
        else:
            vals.append(E.int(f"{name}_{i}", bits=8 * w, signed=ch.islower()))
    return vals[0] if len(vals) == 1 else tuple(vals)


def ref_read(buf, pos, ch):
    w = struct.calcsize(ch)
    v = 0
    big = ch[0] in ">!"
    for i in range(w):
        v = v + (buf[pos + i] << (8 * (w - 1 - i if big else i)))
    if ch.islower():
        v = pysym.ite(v >= (1 << (8 * w - 1)), v - (1 << (8 * w)), v)
    return v


def python_harness(seed):
    def harness():
        ebpf_mod = pysym.module("ebpf")
        am = pysym.module("arraymap")
        bpfm = pysym.module("bpf")
        spec = gen_spec(seed)
        created = []
        buffers = {}

        def create_map(map_type, key_size, value_size, max_entries,
                       attributes=None):
            created.append((map_type, key_size, value_size, max_entries))
            return 100 + len(created)

        def mmap(fd, size):
            b = pysym.SByteArray(E.bytes(f"map{fd}", size)) \
                if not E.concrete else bytearray(E.bytes(f"map{fd}", size))
            buffers[fd] = b
            return b

        percpu_data = {}

        def lookup_elem(fd, key, fmt):
            # the kernel fills value_size rounded up to 8 per possible CPU
            vs = [c for c in created if True][fd - 101][2]
            n = ((vs + 7) // 8) * 8 * CPUS
            E.prove(isinstance(fmt, int) and fmt >= n,
                    "per-CPU read buffer covers all CPUs")
            d = E.bytes(f"percpu{fd}", n)
            percpu_data[fd] = d
            return d
        saved = (am.create_map, am.mmap, am.lookup_elem)
        am.create_map, am.mmap, am.lookup_elem = create_map, mmap, lookup_elem
        from .. import bpfkernel
        undo_cpus = bpfkernel.stub_cpus(am, CPUS, CPUS)
        pysym.SYM_BYTEARRAYS = True
        try:
            Base, Prog, Sub, subs, mapobjs, emit = build(ebpf_mod, am, spec)
            e = Prog(bpfm.ProgType.XDP, "GPL", subprograms=subs)
            e.loaded = True
            sizes = {k: getattr(m, "size", 0) for k, m in mapobjs.items()}
            spans, probs = layout(spec, e, subs, mapobjs, sizes)
            for p in probs:
                E.fail(f"layout: {p}")
            if probs:
                return
            mbuf = e.__dict__.get("m")
            if mbuf is None:
                return
            before = [mbuf[i] for i in range(sizes["m"])]
            cells = [(o, v) for o, v in cells_of(spec, e, subs)]
            # reads of the symbolic initial content
            for o, v in cells:
                if v["map"] != "m" or v["fmt"] == "x":
                    continue
                got = getattr(o, v["name"])
                pos = o.__dict__[v["name"]]
                items = fmt_items(v["fmt"])
                want = [ref_read(before, pos + off, ch) for ch, off in items]
                if len(items) == 1:
                    E.prove(got == want[0], f"Python reads a {v['fmt']} "
                            "variable from its own bytes")
                else:
                    E.prove(isinstance(got, tuple) and len(got) == len(want)
                            and pysym.land(*[a == b for a, b in zip(got, want)]),
                            f"Python reads a {v['fmt']} variable as the tuple "
                            "of its own bytes")
            # writes
            expect = list(before)
            for k, (o, v) in enumerate(cells):
                if v["map"] != "m":
                    continue
                pos = o.__dict__[v["name"]]
                if v["fmt"] == "x":
                    for val in (2.5, -7.00001, 1234.75, -0.125, 0.0, -1.3,
                                -0.29, 0.29):
                        setattr(o, v["name"], val)
                        back = getattr(o, v["name"])
                        E.prove(abs(back - val) < 1e-9,
                                f"a decimal written to an x variable reads "
                                f"back as the same decimal ({val} -> {back})")
                    enc = round(val * 100000)
                    for i in range(8):
                        expect[pos + i] = (enc >> (8 * i)) & 0xff
                    continue
                val = fresh(f"w{k}", v["fmt"])
                setattr(o, v["name"], val)
                vals = val if isinstance(val, tuple) else (val,)
                for i in range(struct.calcsize(v["fmt"])):
                    expect[pos + i] = None      # padding inside the variable
                for (ch, off), x in zip(fmt_items(v["fmt"]), vals):
                    w = struct.calcsize(ch)
                    for i in range(w):
                        sh = 8 * (w - 1 - i if ch[0] in ">!" else i)
                        expect[pos + off + i] = (x >> sh) & 0xff
            good = True
            for i in range(sizes["m"]):
                if expect[i] is not None:
                    good = pysym.land(good, mbuf[i] == expect[i])
            E.prove(good, "after the Python writes every variable's bytes "
                          "hold its struct encoding and no other byte of the "
                          "map changed")
            # per-CPU variables: one value per CPU
            if "pc" in mapobjs and sizes.get("pc"):
                rd = e.__dict__.get("pc")
                rd.read()
                fd = rd.fd
                data = percpu_data[fd]
                stride = ((sizes["pc"] + 7) // 8) * 8
                for o, v in cells:
                    if v["map"] != "pc" or v["fmt"] == "x":
                        continue
                    seq = getattr(o, v["name"])
                    E.prove(len(seq) == CPUS, "a per-CPU variable has one "
                                              "value per CPU")
                    pos = o.__dict__[v["name"]]
                    items = fmt_items(v["fmt"])
                    for cpu in (0, CPUS - 1):
                        got = seq[cpu]
                        want = [ref_read(data, cpu * stride + pos + off, ch)
                                for ch, off in items]
                        gt = got if isinstance(got, tuple) else (got,)
                        E.prove(isinstance(got, tuple) == (len(items) > 1),
                                f"per-CPU {v['fmt']} variable: one element "
                                "reads as a scalar, several as a tuple")
                        E.prove(len(gt) == len(want) and pysym.land(
                            *[a == b for a, b in zip(gt, want)]),
                            f"per-CPU {v['fmt']} variable: CPU {cpu}'s value "
                            "comes from that CPU's copy")
        finally:
            am.create_map, am.mmap, am.lookup_elem = saved
            undo_cpus()
            pysym.SYM_BYTEARRAYS = False
    return harness


def python_worker(seed):
    res = pyrun.new_res()
    name = f"declaration set seed {seed} (Python side)"
    try:
        st = pyrun.run("C08", name, python_harness(seed), res, maxtime=300,
                       sig=lambda w: "python|" +
                       w.split(" with inputs")[0].split("(")[0].strip()[:70])
        res["samples"].append(dict(harness=name, **{
            k: st[k] for k in ("paths", "aborted", "decisions", "obligations",
                               "queries", "wall")}))
    except Exception as ex:
        import traceback
        res["errors"].append(f"{name}: harness exception {ex} "
                             f"{traceback.format_exc()[-600:]}")
    return res


def program_worker(seed):
    res = dict(obligations=0, discharged=0, undecided=0, programs=0,
               replayed=0, violations=[], errors=[], undecided_list=[],
               samples=[], vacuity=[], queries=0, solver_s=0.0)
    q = common.Q(rlimit=30_000_000, timeout_ms=60_000)
    try:
        program_side(seed, q, res)
    except Exception as ex:
        import traceback
        res["errors"].append(f"seed {seed} program side: {type(ex).__name__} "
                             f"{ex} {traceback.format_exc()[-600:]}")
    res["queries"], res["solver_s"] = q.queries, q.solver_s
    return res


def worker(args):
    kind, seed = args
    return program_worker(seed) if kind == "prog" else python_worker(seed)


def main(tier, replay_file=None):
    n = 12 if tier == "quick" else 120
    ck = common.Check(
        "C08", tier, "translation_validation", FUNCTIONS,
        bounds=dict(declarations=f"{n} seeded declaration sets (seed base "
                                 f"{common.seed()}): array map + (40%) per-CPU "
                                 "map, 0-2 base class, 1-3 program class and "
                                 "0-2 subprogram variables (1-2 instances), "
                                 f"formats {SINGLE}, x, {MULTI}; 30%: a name "
                                 "declared again in the derived class",
                    per_set="whole map contents and all written values "
                            "symbolic (Q below 2^63 on the Python side; x "
                            "from eight decimals incl. 0.29 and negative "
                            "ones)",
                    outside="multi-element formats on the program side (the "
                            "generator has no such access); more than "
                            f"{CPUS} CPUs"),
        stubs=["create_map / mmap / lookup_elem / cpu_count replaced: mmap "
               "returns a symbolic byte array, the per-CPU lookup returns "
               "symbolic bytes of the kernel's layout (value size rounded up "
               "to 8, times CPUs)", "array map model of engine A"])
    base = common.seed()
    items = [(k, base * 1000 + i) for i in range(n) for k in ("prog", "py")]
    for res in common.pmap(worker, items):
        ck.add(res)
    return ck.finish()
