"""C16 -- SDO transfers carry values byte-for-byte.

The real Terminal.sdo_read / sdo_write / mbx_send / mbx_recv coroutines run
symbolically (through the real roundtrip encoding) against a
protocol-conformant CoE mailbox server model: value length (0 .. a few
mailbox sizes) and content, index and subindex are solver variables; mailbox
sizes are enumerated; the server may answer late and may interleave one
unrelated mail.
"""
from .. import busmodel, coemodel, common, pyrun, pysym
from ..pysym import E, land, lnot, lor

FUNCTIONS = ["ebpfcat/ethercat.py:Terminal.sdo_read", "ebpfcat/ethercat.py:Terminal.sdo_write",
             "ebpfcat/ethercat.py:Terminal.mbx_send/mbx_recv",
             "ebpfcat/ethercat.py:datasize, Terminal.read/write, EtherCat.roundtrip",
             "ebpfcat/lock.py:MailboxLock"]


def make_harness(kind, out_sz, in_sz, ca, maxlen, unrelated, delay_msgs=99):
    def harness():
        eth = pysym.module("ethercat")
        index = E.int("index", 0x1000, 0xffff)
        sub = None if ca else E.int("subindex", 0, 255)
        L = E.int("length", 1, maxlen)
        value = E.bytes("value", L)
        model = coemodel.CoETerminal(out_sz, in_sz, unrelated_mail=unrelated,
                                     delay_msgs=delay_msgs)
        bus = busmodel.Bus(eth, [model])
        out = {}

        async def main():
            ec = busmodel.make_ec(eth)
            t = eth.Terminal(ec)
            t.position = 1000
            t.mbx_lock = ec.get_mbx_lock(1000)
            t.mbx_out_off, t.mbx_out_sz = model.out_off, out_sz
            t.mbx_in_off, t.mbx_in_sz = model.in_off, in_sz
            t.name = "coe"
            key = "obj"
            model.expect = (index, sub)
            if kind == "read":
                model.objects[key] = value
                coro = t.sdo_read(index, sub)
            else:
                coro = t.sdo_write(value, index, sub)
            try:
                out["ret"] = await busmodel.with_bus(ec, bus, coro)
            except eth.EtherCatError as ex:
                out["raised"] = ex
            except busmodel.Rejected as ex:
                out["rejected"] = ex
            out["key"] = key
        pysym.run_async(main, max_steps=20000)
        if "rejected" in out:
            E.fail("conformant terminal rejects the master's message: "
                   f"{out['rejected']}")
            return
        for v in model.violations:
            E.fail(f"conformant terminal rejects the master's message: {v}")
        for d, ln in model.messages:
            E.prove(ln <= (out_sz if d == "out" else in_sz),
                    "every mailbox message fits in the mailbox")
        E.prove(model.toggles == [i % 2 for i in range(len(model.toggles))],
                f"segment toggle bits alternate starting at 0 (saw {model.toggles})")
        cs = model.counters
        E.prove(all(b == a % 7 + 1 for a, b in zip(cs, cs[1:])),
                f"mailbox counters follow the cycle 1..7 (saw {cs})")
        if "raised" in out:
            E.fail(f"transfer raises {type(out['raised']).__name__}: "
                   f"{str(out['raised'])[:60]}")
            return
        if kind == "read":
            E.prove(pysym.beq(out["ret"], value),
                    "upload returns exactly the terminal's value bytes")
        else:
            E.prove(out["key"] in model.stored and model.dl is None,
                    "download completes on the terminal")
            if out["key"] in model.stored:
                E.prove(pysym.beq(model.stored[out["key"]], value),
                        "downloaded value reaches the terminal byte-for-byte")
    return harness


TIER = "quick"


def shapes(tier):
    out = []
    sizes = [(24, 24), (32, 48)] if tier == "quick" else \
        [(24, 24), (32, 48), (64, 32)]
    for o, i in sizes:
        for kind in ("read", "write"):
            for ca in (False, True):
                m = i if kind == "read" else o
                mx = m + 12 if tier == "quick" else m + 24
                out.append((kind, o, i, ca, mx, False))
        out.append(("read", o, i, False, 12, True))
        out.append(("write", o, i, False, 12, True))
    return out


def worker(args):
    kind, o, i, ca, mx, unrel = args
    res = pyrun.new_res()
    name = (f"sdo_{kind} mailbox out={o} in={i} "
            f"{'complete access' if ca else 'subindex'} length<={mx}"
            + (" +unrelated mail" if unrel else ""))
    try:
        st = pyrun.run("C16", name, make_harness(kind, o, i, ca, mx, unrel,
                                                 2 if TIER == "quick" else 3),
                       res, maxtime=600,
                       sig=lambda w: f"sdo_{kind}|" + w.split("(")[0].split(":")[0].strip()[:60])
        res["samples"].append(dict(harness=name, **{
            k: st[k] for k in ("paths", "aborted", "decisions", "obligations",
                               "queries", "wall")}))
    except Exception as ex:
        import traceback
        res["errors"].append(f"{name}: harness exception {ex} "
                             f"{traceback.format_exc()[-500:]}")
    return res


def main(tier, replay_file=None):
    ck = common.Check(
        "C16", tier, "model_checking", FUNCTIONS,
        bounds=dict(value_length="0 .. mailbox+12 (thorough mailbox+24) bytes "
                                 "(symbolic), content symbolic",
                    mailbox_sizes="(24,24), (32,48)" + ("" if tier == "quick"
                                                        else ", (64,32)"),
                    addressing="subindex (symbolic) and complete access",
                    server="response delay 0..1 polls per message; optional "
                           "unrelated (EoE) mail before a response; expedited "
                           "or normal upload for short values (solver choice)",
                    outside="abort responses; mailbox repeat requests"),
        stubs=["CoE server model vf/coemodel.py (ETG.1000.6 5.6.2: SDO "
               "download/upload expedited, normal, segmented)",
               "bus model at the datagram interface"])
    import os
    global TIER
    TIER = tier
    sh = shapes(tier)
    if os.environ.get("VERIF_ONLY"):
        sh = [x for x in sh if os.environ["VERIF_ONLY"] in x[0]]
    for res in common.pmap(worker, sh):
        ck.add(res)
    return ck.finish()
