"""C23 -- processes sharing an interface coordinate the dispatcher safely.

2-3 simulated processes (threads running the REAL ParallelEtherCat.run /
get_ethertype and the REAL FMMULock over the POSIX file model of
vf/procsim.py) start and stop sharing one interface; every file-system, bpf
and netlink call is a scheduling point and the engine explores which process
continues (bounded preemptions), which value `randrange` returns
(adversarial: values in use included) and, optionally, where one participant
dies.  A monitor evaluates the obligations at every scheduling point.
"""
import errno

from .. import common, procsim, pyrun, pysym
from ..pysym import E, land, lnot, lor

FUNCTIONS = ["ebpfcat/ebpfcat.py:ParallelEtherCat.run",
             "ebpfcat/ebpfcat.py:ParallelEtherCat.get_ethertype",
             "ebpfcat/lock.py:FMMULock.__init__/get_next_addr/remove"]
IF = "verif0"
LOCKDIR = f"/run/lock/ebpf.{IF}.lock"
PROGRAMS = f"/sys/fs/bpf/{IF}/programs"
REGION = "teardown_overlaps_start"
LAST_SIM = None


def adversarial_randrange(draws, cands):
    """first `draws` results are engine decisions among representative
    values (values in use included), later ones are fresh"""
    state = dict(n=0)

    def randrange(a, b=None):
        if b is None:
            a, b = 0, a
        state["n"] += 1
        if state["n"] <= draws:
            c = [v for v in cands if a <= v < b]
            return c[E.choose(len(c), "randrange")]
        return a + 20 + state["n"]
    return randrange


def protocol_harness(nproc, rounds, preemptions, crash):
    def harness():
        ecm = pysym.module("ebpfcat")
        eth = pysym.module("ethercat")
        undo = procsim.install(ecm)
        sim = procsim.Sim(preemptions=preemptions, crash=crash)
        global LAST_SIM
        LAST_SIM = sim
        fs = sim.fs
        K = dict(attached=None, nextmap=100, installing=set(), tearing=set(),
                 overlap=False, status={}, ecs={}, bad=[], fails=[])

        def pid_now():
            return procsim.TLS.shims.pid

        def create_map(*a):
            pid = pid_now()
            sim.point(pid, "create_map")
            if K["installing"] - {pid}:
                K["bad"].append((f"two participants install the dispatcher "
                                 f"at the same time", K["overlap"]))
            K["installing"].add(pid)
            K["nextmap"] += 1
            return K["nextmap"]

        class FakeXDP:
            programs = None

            async def attach(self, net):
                sim.point(pid_now(), "netlink attach")
                K["attached"] = self.programs

            async def detach(self, net):
                sim.point(pid_now(), "netlink detach")
                K["attached"] = None

            def close(self):
                pass

        def obj_pin(path, fd):
            pid = pid_now()
            sim.point(pid, f"obj_pin {path}")
            if path in fs.files:
                raise FileExistsError(errno.EEXIST, path)
            fs.files[path] = [fd]
            fs.inode[path] = fs.next_inode
            fs.next_inode += 1
            K["installing"].discard(pid)

        def obj_get(path):
            sim.point(pid_now(), f"obj_get {path}")
            if path not in fs.files:
                raise FileNotFoundError(errno.ENOENT, path)
            return fs.files[path][0]

        async def sleep(t):
            pid = pid_now()
            sim.procs[pid]["yielding"] = True
            sim.point(pid, "sleep")

        async def connect(self):
            sim.point(pid_now(), "connect")

        class FakeLock:
            def __init__(self, *a):
                pass

            def remove(self):
                pass

        saved = {n: ecm.__dict__[n] for n in
                 ("create_map", "EtherXDP", "obj_pin", "obj_get", "sleep",
                  "randrange", "LockFile", "FMMULock")}
        saved_connect = eth.EtherCat.connect
        ecm.create_map, ecm.EtherXDP = create_map, FakeXDP
        ecm.obj_pin, ecm.obj_get, ecm.sleep = obj_pin, obj_get, sleep
        ecm.LockFile = ecm.FMMULock = FakeLock
        ecm.randrange = adversarial_randrange(2 * nproc, [0x3000, 0x3001])
        eth.EtherCat.connect = connect

        def monitor(pid, what):
            st = K["status"]
            if st.get(pid) == "start" and K["tearing"] - {pid}:
                K["overlap"] = True
            run = [q for q, s in st.items() if s == "running"]
            for q in run:
                ec = K["ecs"][q]
                if K["attached"] is None or K["attached"] != ec.programs:
                    K["bad"].append((f"the dispatcher serving a running "
                                     f"participant's program table is not "
                                     f"attached", K["overlap"]))
                if fs.files.get(PROGRAMS, [None])[0] != ec.programs:
                    K["bad"].append((f"the program table of a running "
                                     f"participant is not the pinned one",
                                     K["overlap"]))
            types = [K["ecs"][q].ethertype for q in run]
            if len(set(types)) != len(types):
                K["bad"].append(("two running participants use the same "
                                 "ethertype", K["overlap"]))

        def after(pid, op, path):
            if op == "rmdir" and path == LOCKDIR:
                K["tearing"].add(pid)
        sim.on_point, sim.after = monitor, after
        try:
            def actor(pid):
                def run(sh):
                    async def main():
                        for r in range(rounds):
                            ec = ecm.ParallelEtherCat(IF)
                            K["ecs"][pid] = ec
                            K["status"][pid] = "start"
                            try:
                                async with ec.run():
                                    K["status"][pid] = "running"
                                    sim.point(pid, "running")
                                    sim.point(pid, "running")
                                    K["status"][pid] = "stop"
                            except procsim.Crash:
                                raise
                            except Exception as ex:
                                K["fails"].append((pid, K["status"][pid],
                                                   type(ex).__name__))
                            finally:
                                K["installing"].discard(pid)
                                K["tearing"].discard(pid)
                                if K["status"].get(pid) != "crashed":
                                    K["status"][pid] = "done"
                    try:
                        pysym.run_async(main, max_steps=4000)
                    except procsim.Crash:
                        K["status"][pid] = "crashed"
                        K["tearing"].discard(pid)
                        raise
                return run
            for pid in range(nproc):
                sim.spawn(pid, actor(pid))
            stuck = sim.run()
        finally:
            undo()
            for n, v in saved.items():
                ecm.__dict__[n] = v
            eth.EtherCat.connect = saved_connect
        E.prove(not stuck, f"no participant is stuck ({stuck})")
        claimed = sorted({w for w, ov in K["bad"] if not ov})
        known = sorted({w for w, ov in K["bad"] if ov})
        for w in claimed:
            E.fail(w)
        for w in known:
            E.fail(f"{w} [{REGION}]")
        E.note = getattr(E, "note", None)
    return harness


def fmmu_harness(nproc, preemptions, crash, release):
    def harness():
        lockm = pysym.module("lock")
        undo = procsim.install(lockm)
        sim = procsim.Sim(preemptions=preemptions, crash=crash)
        path = f"/run/ebpf/{IF}.fmmu"
        init = None
        if E.choose(2, "fmmu map: absent / left by earlier participants"):
            b = E.bytes("bitmap", 2)
            init = [b[0], b[1]] + [0] * 62
            sim.fs.files[path] = list(init)
            sim.fs.inode[path] = 98
        saved = lockm.randrange
        lockm.randrange = adversarial_randrange(nproc + 1, [1, 2, 9])
        held, bad = {}, []
        try:
            def actor(pid):
                def run(sh):
                    fl = lockm.FMMULock(path)
                    base = fl.base_addr
                    if base in held.values():
                        bad.append(f"two processes hold the same logical "
                                   f"address window ({base >> 22})")
                    held[pid] = base
                    if init is not None:
                        a = base >> 22
                        E.prove((init[a // 8] & (1 << (a % 8))) == 0,
                                "a window marked as in use in the map is "
                                "not handed out again")
                    w1 = fl.get_next_addr()
                    w2 = fl.get_next_addr()
                    E.prove(w1 != w2 and w1 >> 22 == base >> 22 and
                            w2 >> 22 == base >> 22, "sync group windows stay "
                            "inside the process's window and are distinct")
                    if release and pid == 0:
                        del held[pid]
                        fl.remove()
                return run
            for pid in range(nproc):
                sim.spawn(pid, actor(pid))
            stuck = sim.run()
        finally:
            undo()
            lockm.randrange = saved
        E.prove(not stuck, f"no process is stuck ({stuck})")
        for pid, p in sim.procs.items():
            if not p.get("crashed") and p["exc"] is not None:
                E.fail(f"process {pid} fails to get an address window "
                       f"({type(p['exc']).__name__})")
        for w in sorted(set(bad)):
            E.fail(w)
        final = sim.fs.files.get(path)
        if final is not None and sim.crashed is None:
            for pid, base in held.items():
                a = base >> 22
                E.prove(pysym.land(len(final) == 64,
                                   (final[a // 8] & (1 << (a % 8))) != 0),
                        "the window of a process still running stays marked "
                        "in the map")
    return harness


def sig(w):
    if f"[{REGION}]" in w:
        return f"region|{REGION}"
    return w.split("(")[0].split(" with inputs")[0].strip()[:80]


def worker(args):
    res = pyrun.new_res()
    kind = args[0]
    if kind == "p":
        _, n, rounds, pre, crash = args
        name = (f"start/stop protocol: {n} participants x {rounds} round(s), "
                f"<= {pre} preemptions" + (", one crash" if crash else ""))
        h = protocol_harness(n, rounds, pre, crash)
    else:
        _, n, pre, crash, rel = args
        name = (f"FMMU map: {n} processes, <= {pre} preemptions" +
                (", one crash" if crash else "") +
                (", one releases its window" if rel else ""))
        h = fmmu_harness(n, pre, crash, rel)
    try:
        st = pyrun.run("C23", name, h, res, maxtime=1200, maxpaths=400000,
                       sig=sig)
        res["samples"].append(dict(harness=name, **{
            k: st[k] for k in ("paths", "aborted", "decisions", "obligations",
                               "queries", "wall")}))
    except Exception as ex:
        import traceback
        res["errors"].append(f"{name}: harness exception {ex} "
                             f"{traceback.format_exc()[-500:]}")
    return res


def main(tier, replay_file=None):
    ck = common.Check(
        "C23", tier, "model_checking", FUNCTIONS,
        bounds=dict(protocol="2 (thorough 3) participants, 1-2 start/stop "
                             "rounds each, scheduling point at every "
                             "file-system / bpf / netlink call, <= 2 "
                             "preemptions (3 participants: 1)",
                    fmmu="2 processes (thorough: also 3 without preemption) creating/allocating concurrently, "
                         "map absent or present with 2 symbolic bytes, "
                         "randrange adversarial over {1, 2, 9}",
                    crash="thorough: one participant may die at any point",
                    outside="more participants / preemptions; more than 1024 "
                            "sync groups per process; joiners that fail to "
                            "start (exceptions) are counted, not claimed"),
        stubs=["POSIX file model incl. rename onto an empty directory, "
               "rmdir, O_EXCL, lockf (vf/procsim.py)",
               "bpf create_map/obj_pin/obj_get and netlink attach/detach as a "
               "kernel model: one attached dispatcher per interface, attach "
               "replaces, pins are files",
               "randrange adversarial for the first draws",
               "mailbox and FMMU lock files stubbed in the protocol harness "
               "(covered by C15 and the FMMU harness)"])
    items = [("p", 2, 1, 2, False), ("p", 2, 2, 1, False),
             ("f", 2, 1, False, False), ("f", 2, 1, False, True)]
    if tier != "quick":
        items += [("p", 3, 1, 1, False), ("p", 2, 1, 2, True),
                  ("f", 2, 2, False, False), ("f", 3, 0, False, False),
                  ("f", 2, 1, True, False)]
    for res in common.pmap(worker, items):
        ck.add(res)
    return ck.finish()
