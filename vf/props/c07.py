"""C07 -- packet variables access exactly their declared bytes and byte order.

XDP programs with a `minimumPacketSize` guard (or an explicit `with
self.packetSize > n`) and packet variables / packet array elements are
compiled by the real generator; the emitted bytes are executed symbolically
on a packet of symbolic length and content.
"""
import random
import struct

import z3
from z3 import And, BitVec, BoolVal, Concat, Extract, If, Not, Or, Select, \
    SignExt, UGE, UGT, ULE, ULT, ZeroExt

from .. import common, dsl
from ..bpfsym import (EngineError, Env, PKT, FP, bv, decode, disasm, load,
                      merge, run)
from ..bpfconc import Fault, Machine

FUNCTIONS = [
    "ebpfcat/xdp.py:PacketVar.fmt_addr, PacketArray.__getitem__/__setitem__",
    "ebpfcat/xdp.py:PacketSize.__gt__/__lt__/__ge__/__le__, XDP.program",
    "ebpfcat/ebpf.py:Memory.calculate/_set/has_endian/without_endian",
    "ebpfcat/ebpf.py:SwitchEndian.calculate_unary, Constant.switch_endian",
    "ebpfcat/ebpf.py:Expression.switch_endian, MemoryMap.__getitem__/__setitem__",
    "ebpfcat/ebpf.py:Sum/Register.__add__ (address arithmetic)",
]
SIZE = {"B": 1, "H": 2, "I": 4, "Q": 8, "b": 1, "h": 2, "i": 4, "q": 8}
ORDERS = ["", "<", ">", "!"]
KINDS = ["read", "write_var", "write_const", "iadd_const", "iadd_var",
         "isub_const", "arr_read", "arr_write", "copy"]
CONSTS = [0, 1, 0x7f, 0x80, 0x1234, -2, 0x12345678, 0x1122334455667788]


def native_little():
    return struct.pack("=H", 1) == b"\x01\x00"


def ref_unpack(bytes8, fmt):
    """z3: value (BV64, sign/zero-extended) of packet bytes `bytes8`
    (list of BV8, in packet order) read with struct format fmt"""
    order, letter = (fmt[0], fmt[1]) if len(fmt) == 2 else ("", fmt)
    little = order == "<" or (order == "" and native_little())
    bs = list(bytes8) if little else list(reversed(bytes8))
    v = bs[0]
    for b in bs[1:]:
        v = Concat(b, v)
    n = 8 * len(bs)
    if n < 64:
        v = SignExt(64 - n, v) if letter.islower() else ZeroExt(64 - n, v)
    return v


def ref_pack(v64, fmt):
    """list of BV8 in packet order for the low bytes of v64"""
    order, letter = (fmt[0], fmt[1]) if len(fmt) == 2 else ("", fmt)
    n = SIZE[letter]
    little = order == "<" or (order == "" and native_little())
    bs = [Extract(8 * i + 7, 8 * i, v64) for i in range(n)]
    return bs if little else list(reversed(bs))


def shapes(tier, seed):
    rnd = random.Random(seed)
    quick = tier == "quick"
    out = []
    for letter in "BHIQbhiq":
        for order in ORDERS:
            fmt = order + letter
            size = SIZE[letter]
            for kind in KINDS:
                if kind.startswith("arr") and (order or letter.islower()):
                    continue
                Ns = [size - 1 + 8, 30] if quick else [size - 1, size + 6, 30, 99]
                for N in Ns:
                    offs = sorted({0, 1, N + 1 - size} | ({7, 8} if not quick else set()))
                    offs = [p for p in offs if 0 <= p and p + size <= N + 1]
                    for p in offs:
                        for guard in (["min"] if quick and rnd.random() < 0.6
                                      else ["min", "with"]):
                            c = rnd.choice(CONSTS)
                            out.append(dict(fmt=fmt, kind=kind, N=N, p=p,
                                            guard=guard, const=c,
                                            src=rnd.choice("QqIi")))
    return out


def sig(s):
    return (f"{s['kind']}|fmt={s['fmt'] or 'native'}|p={s['p']}|N={s['N']}|"
            f"{s['guard']}")


def build(s):
    fmt, kind, N, p = s["fmt"], s["kind"], s["N"], s["p"]
    m = dsl._am.ArrayMap()
    ns = dict(themap=m, marker=m.globalVar("B"), out=m.globalVar("q"),
              src=dsl.ebpf.LocalVar(s["src"]),
              pv=dsl.xdp.PacketVar(p, fmt),
              pv2=dsl.xdp.PacketVar(0 if p else (N + 1 - SIZE[fmt[-1]]), fmt))
    letter = fmt[-1]

    def body(e, pk):
        e.marker = 1
        if kind == "read":
            e.out = e.pv
        elif kind == "write_var":
            e.pv = e.src
        elif kind == "write_const":
            e.pv = s["const"]
        elif kind == "iadd_const":
            e.pv += s["const"]
        elif kind == "isub_const":
            e.pv -= s["const"]
        elif kind == "iadd_var":
            e.pv += e.src
        elif kind == "copy":
            e.pv2 = e.pv
        elif kind == "arr_read":
            e.out = getattr(pk, "p" + letter)[p]
        elif kind == "arr_write":
            getattr(pk, "p" + letter)[p] = e.src

    if s["guard"] == "min":
        ns["minimumPacketSize"] = N

        def program(self):
            class PK:
                pB, pH, pI, pQ = self.pB, self.pH, self.pI, self.pQ
            body(self, PK)
    else:
        def program(self):
            with self.packetSize > N as pk:
                body(self, pk)
            self.exit(dsl.xdp.XDPExitCode.PASS)
    ns["program"] = program
    return dsl.build(ns, None, base=dsl.xdp.XDP, finish=False)


def check_shape(s, q, res, want_sample=False):
    sg = sig(s)
    fmt, kind, N, p = s["fmt"], s["kind"], s["N"], s["p"]
    letter = fmt[-1]
    size = SIZE[letter]
    try:
        e, code, maps = build(s)
    except (dsl.ebpf.AssembleError, TypeError, NotImplementedError,
            struct.error) as ex:
        # struct.error: a constant outside the format's range -- struct.pack
        # itself has no bytes for it, so the property says nothing
        res["rejected"] = res.get("rejected", 0) + 1
        res.setdefault("reject_kinds", {}).setdefault(
            type(ex).__name__ + ": " + str(ex)[:60], []).append(sg)
        return
    except Exception as ex:
        res["violations"].append(dict(
            signature=f"C07|crash|{type(ex).__name__}|fmt={fmt}|{kind}",
            what=f"{sg}: generator raises {type(ex).__name__}: {ex}",
            witness=None, replay=dict(shape=s)))
        return
    res["programs"] += 1
    insns = decode(code)
    env = Env(maps, pkt_max=N + 64)
    st0 = env.initial()
    try:
        exits = run(insns, env, st0.copy())
    except EngineError as ex:
        res["violations"].append(dict(
            signature=f"C07|invalid-program|fmt={fmt}|{kind}|{str(ex)[:40]}",
            what=f"{sg}: emitted program is not executable: {ex}",
            witness=dict(program=disasm(insns)), replay=dict(shape=s)))
        return
    ex_ = [x for x in exits if x.kind == "exit"]
    g, fin = merge([(x.guard, x.state) for x in ex_])
    mem0 = st0.mem
    L = env.pkt_len
    base = list(env.assumptions)
    longer = UGT(L, bv(N))
    mk = maps[0].base + e.__dict__["marker"]
    outa = maps[0].base + e.__dict__["out"]
    srca = FP + type(e).__dict__["src"].relative_addr

    def pk0(i):
        return Select(mem0, bv(PKT + i))

    def pk1(i):
        return Select(fin.mem, bv(PKT + i))

    srcraw = load(mem0, bv(srca), SIZE[s["src"]])
    n = 8 * SIZE[s["src"]]
    srcv = srcraw if n == 64 else (SignExt(64 - n, srcraw) if s["src"].islower()
                                   else ZeroExt(64 - n, srcraw))
    cur = ref_unpack([pk0(p + i) for i in range(size)], fmt)
    written = None
    obl = []   # (name, negated formula that must be unsat)
    obl.append(("always exits", Not(g)))
    obl.append(("exit code is the default PASS", And(g, fin.regs[0] != bv(2))))
    obl.append(("body runs iff packet longer than the guard",
                (load(fin.mem, bv(mk), 1) == bv(1, 8)) !=
                If(longer, BoolVal(True), load(mem0, bv(mk), 1) == bv(1, 8))))
    if kind in ("read", "arr_read"):
        obl.append(("read value equals struct.unpack of the packet bytes",
                    And(longer, load(fin.mem, bv(outa), 8) != cur)))
    elif kind in ("write_var", "arr_write"):
        written = ref_pack(srcv, fmt)
    elif kind == "write_const":
        written = ref_pack(bv(s["const"]), fmt)
    elif kind == "iadd_const":
        written = ref_pack(cur + bv(s["const"]), fmt)
    elif kind == "isub_const":
        written = ref_pack(cur - bv(s["const"]), fmt)
    elif kind == "iadd_var":
        written = ref_pack(cur + srcv, fmt)
    wpos = p
    if kind == "copy":
        wpos = 0 if p else (N + 1 - size)
        written = [pk0(p + i) for i in range(size)] if wpos != p else None
    if written is not None:
        obl.append(("written bytes equal struct.pack",
                    And(longer, Or(*[pk1(wpos + i) != written[i]
                                     for i in range(size)]))))
    j = BitVec("j", 64)
    outside = Or(ULT(j, bv(wpos)), UGE(j, bv(wpos + size))) \
        if written is not None else BoolVal(True)
    obl.append(("no other packet byte changes",
                And(ULT(j, L), outside,
                    Select(fin.mem, bv(PKT) + j) != Select(mem0, bv(PKT) + j))))
    for pc, gg, ok, text in env.safety:
        obl.append((f"pc {pc}: {text} stays inside its region",
                    And(gg, Not(ok))))
    for pc, gg, ok, text in env.inits:
        if not z3.is_true(ok):
            obl.append((f"pc {pc}: {text} initialised", And(gg, Not(ok))))
    for name, f in obl:
        res["obligations"] += 1
        r, m = q.check(*base, f)
        if r == "unsat":
            res["discharged"] += 1
        elif r == "unknown":
            res["undecided"] += 1
            res["undecided_list"].append(f"{sg}: {name}")
        else:
            rep = replay(s, code, maps, m, mem0, L, N, e, name)
            res["replayed"] += 1
            if rep is None:
                res["errors"].append(f"{sg}: '{name}' counterexample did not "
                                     "reproduce")
            else:
                res["violations"].append(dict(
                    signature=f"C07|{name}|{kind}|fmt={fmt}",
                    what=f"{sg}: {name} fails: {rep}", witness=rep,
                    replay=dict(shape=s)))
    if want_sample:
        res["samples"].append(dict(shape=sg, program=disasm(insns),
                                   obligations=[n for n, _ in obl]))
        r, _ = q.check(*base, g, longer)
        res["vacuity"].append((f"guarded body reachable: {sg}", r == "sat"))


def replay(s, code, maps, model, mem0, L, N, e, name):
    """concrete run on the model's packet; oracle = the real struct module"""
    fmt, kind, p = s["fmt"], s["kind"], s["p"]
    size = SIZE[fmt[-1]]
    ln = model.eval(L, model_completion=True).as_long()
    pkt = bytes(model.eval(Select(mem0, bv(PKT + i)), model_completion=True)
                .as_long() for i in range(ln))
    srca = FP + type(e).__dict__["src"].relative_addr
    mem = {srca + i: model.eval(Select(mem0, bv(srca + i)),
                                model_completion=True).as_long()
           for i in range(8)}
    mk = maps[0].base + e.__dict__["marker"]
    mem[mk] = 0
    m = Machine(code, maps, packet=pkt, mem=mem)
    try:
        r = m.run()
    except Fault as ex:
        return f"len={ln}: fault {ex}"
    out = bytes(m.mem.get(PKT + i, 0) for i in range(ln))
    ran = m.ld(mk, 1) == 1
    problems = []
    if r != ("exit", 2):
        problems.append(f"exit {r}")
    if ran != (ln > N):
        problems.append(f"body ran={ran} with len={ln}, guard {N}")
    if ran:
        sfmt = fmt if len(fmt) == 2 else "=" + fmt
        srcv = int.from_bytes(bytes(mem[srca + i] for i in range(SIZE[s["src"]])),
                              "little", signed=s["src"].islower())
        cur = struct.unpack_from(sfmt, pkt, p)[0]
        mask = (1 << (8 * size)) - 1
        exp = bytearray(pkt)

        def put(pos, v):
            exp[pos:pos + size] = struct.pack(sfmt.upper() if sfmt[-1].islower()
                                              else sfmt, v & mask)
        if kind in ("read", "arr_read"):
            got = m.ld(maps[0].base + e.__dict__["out"], 8)
            if got != cur & ((1 << 64) - 1):
                problems.append(f"read {got:#x}, struct.unpack gives {cur:#x}")
        elif kind in ("write_var", "arr_write"):
            put(p, srcv)
        elif kind == "write_const":
            put(p, s["const"])
        elif kind == "iadd_const":
            put(p, cur + s["const"])
        elif kind == "isub_const":
            put(p, cur - s["const"])
        elif kind == "iadd_var":
            put(p, cur + srcv)
        elif kind == "copy":
            put(0 if p else (N + 1 - size), cur)
        if bytes(exp) != out:
            problems.append(f"packet {pkt.hex()} -> {out.hex()}, expected "
                            f"{bytes(exp).hex()}")
    elif out != pkt:
        problems.append("packet changed although the guard failed")
    return "; ".join(problems) + f" [len={ln}]" if problems else None


def worker(args):
    chunk, sample_every = args
    q = common.Q()
    res = dict(obligations=0, discharged=0, undecided=0, programs=0,
               replayed=0, samples=[], violations=[], errors=[],
               undecided_list=[], vacuity=[])
    for n, s in chunk:
        try:
            check_shape(s, q, res, want_sample=(n % sample_every == 0))
        except Exception as ex:
            import traceback
            res["errors"].append(f"{sig(s)}: harness exception "
                                 f"{type(ex).__name__}: {ex} "
                                 f"{traceback.format_exc()[-400:]}")
    res["queries"] = q.queries
    res["solver_s"] = q.solver_s
    return res


def main(tier, replay_file=None):
    ck = common.Check(
        "C07", tier, "translation_validation", FUNCTIONS,
        bounds=dict(formats="B H I Q b h i q x native < > !",
                    accesses="read, write (variable/constant), in-place "
                             "add/sub, copy packet->packet, pB/pH/pI/pQ read/write",
                    offsets="0, 1, (7, 8,) last admissible offset; guards "
                            "minimumPacketSize and explicit with-block",
                    packet="length 0..guard+64 symbolic, every byte symbolic",
                    outside="offsets beyond the declared guard (the kernel "
                            "verifier rejects those programs: see C05)"),
        stubs=["xdp_md context: data/data_end loads return packet start/end",
               "create_map/mmap recording stubs"],
        assumptions=["struct byte order reference written from the struct "
                     "documentation; replay uses the real struct module",
                     "host is little endian: %s" % native_little()])
    if replay_file:
        import json
        sh = [json.load(open(replay_file))["replay"]["shape"]]
    else:
        sh = shapes(tier, common.seed())
    items = list(enumerate(sh))
    nchunks = common.NCPU * 4
    chunks = [(items[i::nchunks], max(1, len(items) // 8))
              for i in range(nchunks)]
    rej, kinds = 0, {}
    for res in common.pmap(worker, [c for c in chunks if c[0]]):
        ck.add(res)
        rej += res.get("rejected", 0)
        for k, v in res.get("reject_kinds", {}).items():
            kinds.setdefault(k, []).extend(v[:3])
    ck.extra["shapes"] = len(sh)
    ck.extra["rejected_by_generator"] = rej
    ck.extra["reject_kinds"] = {k: v[:3] for k, v in kinds.items()}
    return ck.finish()
