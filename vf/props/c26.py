"""C26 -- the fast Motor device commands exactly its limited control law.

The real Motor.program is compiled inside a real FastSyncGroup for the
bundled EL7041 terminal; the emitted bytes are executed symbolically with
every input (target, position, gain, limits, previous velocity, switch bits,
enable, whole frame, whole map) symbolic, and the 16-bit velocity output is
compared with the control law for ALL inputs at once.
"""
import z3
from z3 import (And, BitVec, BoolVal, BVMulNoOverflow, BVMulNoUnderflow,
                BVSubNoOverflow, BVSubNoUnderflow, Extract, If, Not, Or,
                Select, SignExt, UGE, ULE, ULT, ZeroExt)

from .. import common, dsl, fastgroup
from ..bpfsym import EngineError, Env, PKT, bv, decode, disasm, load, merge, run
from ..bpfconc import Fault, Machine

FUNCTIONS = [
    "ebpfcat/devices.py:Motor.program",
    "ebpfcat/ebpfcat.py:FastSyncGroup.program, SterilePacket.activate",
    "ebpfcat/ebpfcat.py:SyncGroupBase.allocate, EBPFTerminal.allocate, "
    "SterilePacket.append_fmmu (frame layout the program addresses)",
    "ebpfcat/ebpfcat.py:PacketVar.fmt_addr/set/get, TerminalVar, DeviceVar, "
    "ProcessDesc.__get__",
    "ebpfcat/ebpf.py:Temporary/TemporaryDesc, comparison, Memory._set (bit "
    "fields), Binary/Negate.calculate",
    "ebpfcat/xdp.py:PacketSize.__ge__/__gt__",
]

LAYOUTS = [
    dict(name="EL7041 layout, FMMU", shift_out=0, shift_in=0, bit_enable=0,
         bit_hi=3, bit_lo=4, use_fmmu=True),
    dict(name="EL7041 layout, direct addressing", shift_out=0, shift_in=0,
         bit_enable=0, bit_hi=3, bit_lo=4, use_fmmu=False),
    dict(name="shifted layout", shift_out=3, shift_in=1, bit_enable=5,
         bit_hi=7, bit_lo=0, use_fmmu=True),
]


def build(layout):
    dsl.new_registry()
    ec = fastgroup.BusStub()
    lay = {k: v for k, v in layout.items() if k not in ("name", "use_fmmu")}
    t = fastgroup.make_terminal(
        fastgroup.terminals.EL7041, ec, 7, fastgroup.el7041_pdos(**lay),
        in_sz=12 + layout["shift_in"], out_sz=8 + layout["shift_out"],
        use_fmmu=layout["use_fmmu"])
    m = fastgroup.devices.Motor()
    m.velocity = t.velocity
    m.encoder = t.stepcounter
    m.low_switch = t.low_switch
    m.high_switch = t.high_switch
    m.enable = t.enable
    sg, code, maps = fastgroup.fast_group(ec, [m])
    return sg, m, t, code, maps


def clamp(x, lo, hi):
    return If(x > hi, hi, If(x < lo, lo, x))


def check_layout(layout, q, res):
    sg, m, t, code, maps = build(layout)
    res["programs"] += 1
    insns = decode(code)
    env = Env(maps, pkt_max=1600)
    st0 = env.initial()
    exits = run(insns, env, st0.copy())
    g, fin = merge([(x.guard, x.state) for x in exits if x.kind == "exit"])
    mem0 = st0.mem
    mp = maps[0].base

    def dv(name):
        return ZeroExt(32, load(mem0, bv(mp + m.__dict__[name]), 4))

    def tv(name):
        fmt, addr = m.__dict__[name].fmt_addr(m)
        return fmt, PKT + addr

    gain, target = dv("proportional"), dv("target")
    A, Lm = dv("max_acceleration"), dv("max_velocity")
    set_enable = dv("set_enable")
    wkc = load(mem0, bv(mp + sg.__dict__["wkc_errors"]), 4)
    _, enc_a = tv("encoder")
    enc = SignExt(32, load(mem0, bv(enc_a), 4))
    _, vel_a = tv("velocity")
    v0 = SignExt(48, load(mem0, bv(vel_a), 2))
    (lo_bit, _), lo_a = tv("low_switch")
    (hi_bit, _), hi_a = tv("high_switch")
    (en_bit, _), en_a = tv("enable")
    lo = Extract(lo_bit, lo_bit, load(mem0, bv(lo_a), 1)) == 1
    hi = Extract(hi_bit, hi_bit, load(mem0, bv(hi_a), 1)) == 1
    need = sg.packet.size + 14
    plen = env.pkt_len
    processed = And(UGE(plen, bv(need)), wkc != 0)

    diff = target - enc
    des = gain * diff
    a1 = clamp(des, v0 - A, v0 + A)
    w = clamp(a1, -Lm, Lm)
    w = If(And(lo, w < 0), bv(0), If(And(hi, w > 0), bv(0), w))
    out = SignExt(48, load(fin.mem, bv(vel_a), 2))
    pre = [processed, ULE(Lm, bv(32767)), v0 >= -Lm, v0 <= Lm,
           BVMulNoOverflow(gain, diff, True), BVMulNoUnderflow(gain, diff)]
    base = list(env.assumptions) + [g]
    obl = [
        ("program always ends (TX)", [Not(g)], "end"),
        ("velocity output equals the limited control law",
         pre + [out != w], "velocity"),
        ("command never exceeds the velocity limit",
         pre + [Or(out > Lm, out < -Lm)], "velocity"),
        ("command never drives into an active limit switch",
         pre + [Or(And(lo, out < 0), And(hi, out > 0))], "velocity"),
        ("command changes by at most the acceleration limit except to stop",
         pre + [out != 0, Or(out - v0 > A, v0 - out > A)], "velocity"),
        ("enable bit follows set_enable, rest of its byte unchanged",
         [processed,
          load(fin.mem, bv(en_a), 1) !=
          If(set_enable != 0, load(mem0, bv(en_a), 1) | bv(1 << en_bit, 8),
             load(mem0, bv(en_a), 1) & bv(~(1 << en_bit), 8))], "enable"),
    ]
    regions = []   # no recorded finding: the 16-bit intermediate defect is fixed
    # every program access inside its region, every register initialised
    for pc, gg, ok, text in env.safety:
        obl.append((f"pc {pc}: {text} inside region", [gg, Not(ok)], None))
    for pc, gg, ok, text in env.inits:
        if not z3.is_true(ok):
            obl.append((f"pc {pc}: {text} initialised", [gg, Not(ok)], None))
    inputs = dict(gain=gain, target=target, A=A, L=Lm, enc=enc, v0=v0,
                  wkc=wkc, plen=plen, set_enable=set_enable)
    hints = [ULT(gain, bv(64)), ULT(target, bv(4096)),
             ULT(enc + 4096, bv(8192))]
    ctx = (layout, code, maps, mem0, plen, vel_a, en_a, inputs, lo, hi, need)
    for name, fs, kind in obl:
        res["obligations"] += 1
        r, mdl = q.check(*(env.assumptions if kind == "end" else base),
                         *fs, hints=hints)
        if r == "unsat":
            res["discharged"] += 1
        elif r == "unknown":
            res["undecided"] += 1
            res["undecided_list"].append(f"{layout['name']}: {name}")
        else:
            rep = replay(mdl, *ctx, kind=kind)
            res["replayed"] += 1
            if rep is None:
                res["errors"].append(f"{layout['name']}: '{name}' "
                                     "counterexample did not reproduce")
            else:
                res["violations"].append(dict(
                    signature=f"C26|{name}", what=f"{layout['name']}: {name} "
                    f"fails: {rep['summary']}", witness=rep,
                    replay=dict(layout=layout)))
    for name, fs, sg_ in regions:
        res["obligations"] += 1
        r, mdl = q.check(*base, *fs, hints=hints)
        if r == "unsat":
            res["discharged"] += 1
        elif r == "unknown":
            res["undecided"] += 1
            res["undecided_list"].append(f"{layout['name']}: {name}")
        else:
            rep = replay(mdl, *ctx)
            res["replayed"] += 1
            if rep is None:
                res["errors"].append(f"{layout['name']}: region "
                                     "counterexample did not reproduce")
            else:
                res["discharged"] += 1
                res["violations"].append(dict(
                    signature=sg_, what=f"{layout['name']}: {rep['summary']}",
                    witness=rep, replay=dict(layout=layout)))
    r, _ = q.check(*base, *pre)
    res["vacuity"].append((f"precondition reachable: {layout['name']}",
                           r == "sat"))
    res["samples"].append(dict(
        layout=layout, instructions=len(insns), exits=len(exits),
        obligations=[n for n, _, _ in obl][:6],
        addresses=dict(velocity=vel_a - PKT, encoder=enc_a - PKT,
                       frame_needed=need),
        program_head=disasm(insns)[:12]))


def replay(model, layout, code, maps, mem0, plen, vel_a, en_a, inputs, lo, hi,
           need, kind="velocity"):
    """run the emitted bytes concretely on the model's frame and map and
    evaluate the control law with Python integers"""
    ev = lambda x: model.eval(x, model_completion=True)
    n = ev(plen).as_long()
    pkt = bytes(ev(Select(mem0, bv(PKT + i))).as_long() for i in range(n))
    mp = maps[0]
    mem = {mp.base + i: ev(Select(mem0, bv(mp.base + i))).as_long()
           for i in range(mp.area)}
    mach = Machine(code, maps, packet=pkt, mem=mem)
    try:
        r = mach.run()
    except Fault as ex:
        return dict(summary=f"fault {ex}")
    if kind == "end":
        return None if r[0] == "exit" else dict(summary=f"ends with {r}")
    if kind is None:
        return None        # safety obligations: a fault would have shown
    if kind == "enable":
        en = ev(inputs["set_enable"]).as_long()
        old, new = pkt[en_a - PKT], mach.ld(en_a, 1)
        bit = layout["bit_enable"]
        exp = (old | (1 << bit)) if en else (old & ~(1 << bit) & 0xff)
        return None if new == exp else dict(
            summary=f"enable byte {old:#x} -> {new:#x}, expected {exp:#x} "
                    f"(set_enable={en})")
    sv = lambda x: ev(x).as_signed_long()
    gain, target, A, L = (ev(inputs[k]).as_long() for k in
                          ("gain", "target", "A", "L"))
    enc, v0 = sv(inputs["enc"]), sv(inputs["v0"])
    lo_, hi_ = z3.is_true(ev(lo)), z3.is_true(ev(hi))
    des = gain * (target - enc)
    a1 = max(min(des, v0 + A), v0 - A)
    w = max(min(a1, L), -L)
    if (lo_ and w < 0) or (hi_ and w > 0):
        w = 0
    got = mach.ld(vel_a, 2)
    got = got - 65536 if got & 0x8000 else got
    problems = []
    if got != w:
        problems.append(f"velocity {got}, control law {w}")
    if abs(got) > L:
        problems.append(f"|velocity| {got} > limit {L}")
    if (lo_ and got < 0) or (hi_ and got > 0):
        problems.append("drives into active switch")
    if got != 0 and abs(got - v0) > A:
        problems.append(f"changes by {got - v0} > acceleration limit {A}")
    if not problems:
        return None
    return dict(summary=f"gain={gain} target={target} position={enc} "
                        f"prev={v0} A={A} L={L} low={lo_} high={hi_}: "
                        + "; ".join(problems),
                inputs=dict(gain=gain, target=target, position=enc, prev=v0,
                            A=A, L=L, low=lo_, high=hi_), got=got, law=w)


def main(tier, replay_file=None):
    ck = common.Check(
        "C26", tier, "translation_validation", FUNCTIONS,
        bounds=dict(inputs="all values of all inputs (bit-vectors): target, "
                           "position, gain, acceleration limit, velocity limit "
                           "<= 32767, previous velocity within the limit, both "
                           "switches, enable, every other frame and map byte, "
                           "frame length",
                    layouts=[l["name"] for l in LAYOUTS],
                    outside="other terminals than the bundled EL7041; desired "
                            "velocity not representable in 64 bits (excluded by "
                            "the statement)"),
        stubs=["map_lookup_elem array model", "xdp_md context"],
        assumptions=["control law oracle written from the statement: "
                     "clamp(clamp(gain*(target-position), prev-A, prev+A), -L, L), "
                     "zero towards an active switch",
                     "the group program only computes when wkc_errors != 0 "
                     "(output enabled) and the frame is long enough"])
    q = common.Q(rlimit=60_000_000, timeout_ms=120_000, fb_timeout=120)
    res = dict(obligations=0, discharged=0, undecided=0, programs=0,
               replayed=0, samples=[], violations=[], errors=[],
               undecided_list=[], vacuity=[])
    layouts = LAYOUTS
    if replay_file:
        import json
        layouts = [json.load(open(replay_file))["replay"]["layout"]]
    for lay in layouts:
        try:
            check_layout(lay, q, res)
        except EngineError as ex:
            res["errors"].append(f"{lay['name']}: engine: {ex}")
    res["queries"], res["solver_s"] = q.queries, q.solver_s
    ck.add(res)
    return ck.finish()
