"""regenerate MANIFEST.json from the table below (kept as code so that the
file is always schema-valid)"""
import json

CHECKS = {}
NA = {}

def chk(pid, category, text, note, technique, ref):
    CHECKS[pid] = dict(
        property_id=pid, quick_cmd=f"./check {pid} quick",
        thorough_cmd=f"./check {pid} thorough",
        evidence_file=f"/verif/evidence/{pid}.json",
        replay_cmd_template=f"./check {pid} quick --replay {{path}}",
        engine="bpfsym" if ref.startswith("A") else "pysym",
        level_claimed=dict(category=category, text=text, design_ref=ref.split(":", 1)[1]),
        level_note=note, technique=technique)

exec(open("tools/manifest_table.py").read())

props = [json.loads(l)["id"] for l in open("properties.jsonl")]
m = dict(
    version=1,
    setup_cmd="./setup.sh",
    hooks=dict(guard="EBPFCAT_VERIF",
               enable="no source hooks are needed: checks import /repo's working tree and replace kernel/OS entry points (create_map, mmap, cpu_count, bpf, os, fcntl, randint, monotonic) by models in the imported modules' globals; EBPFCAT_VERIF=1 is exported by the checks for completeness",
               baseline_off_cmd="cd /repo && /venv/bin/python -m pytest -ra -q -p no:cacheprovider --timeout=900 --continue-on-collection-errors",
               source_commits=[], add_only=True),
    engines=[
        dict(name="bpfsym", path="vf/bpfsym.py",
             serves_properties=sorted(p for p, c in CHECKS.items() if c["engine"] == "bpfsym"),
             kind_free_text="z3 bit-vector symbolic execution (merged forward execution, BMC) of the eBPF bytes emitted by the real EBPF.assemble(); UF abstraction + proved lemma instances and cvc5 --solve-bv-as-int as fallback for mul/div"),
        dict(name="pysym", path="vf/pysym",
             serves_properties=sorted(p for p, c in CHECKS.items() if c["engine"] == "pysym"),
             kind_free_text="symbolic execution of the real Python functions of /repo/ebpfcat with z3-backed proxy values (ints, bytes ropes), DART-style path exploration, deterministic event loop with symbolic scheduling/fault choices"),
    ],
    checks=[CHECKS[p] for p in props if p in CHECKS],
    not_applicable=[dict(property_id=p, reason=NA.get(p, "check not built yet in this round (planned, see DESIGN.md section 8)"))
                    for p in props if p not in CHECKS],
    notes="Technique family: solver-based checking of the real code. Exit codes: 0 held (KNOWN-FINDING lines allowed), 1 VIOLATION, 2 harness error/inconclusive. known_findings.json lists recorded and fixed defects.",
)
json.dump(m, open("MANIFEST.json", "w"), indent=1)
print(len(m["checks"]), "checks,", len(m["not_applicable"]), "not applicable")
