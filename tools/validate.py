"""validate MANIFEST.json and every evidence file against the schemas"""
import glob, json, sys
import jsonschema
ok = True
m = json.load(open("MANIFEST.json"))
jsonschema.validate(m, json.load(open("/root/.vp/MANIFEST.schema.json")))
props = [json.loads(l)["id"] for l in open("properties.jsonl")]
claimed = [c["property_id"] for c in m["checks"]]
na = [n["property_id"] for n in m.get("not_applicable", [])]
for p in props:
    if (p in claimed) == (p in na):
        print("property", p, "must be exactly one of claimed / not_applicable"); ok = False
es = json.load(open("/root/.vp/EVIDENCE.schema.json"))
for c in m["checks"]:
    f = c["evidence_file"].replace("/verif/", "")
    try:
        ev = json.load(open(f))
        jsonschema.validate(ev, es)
        if ev["level"] != c["level_claimed"]["category"]:
            print(f, "level differs from manifest"); ok = False
    except Exception as ex:
        print("evidence", f, "invalid:", str(ex)[:200]); ok = False
print("valid" if ok else "INVALID")
sys.exit(0 if ok else 1)
