TV = "translation_validation"
MC = "model_checking"
BASE_NOTE = ("Trusted: z3 5.1 / cvc5 1.0.3, the eBPF step function of vf/bpfsym.py "
             "(cross-validated against the independent interpreter vf/bpfconc.py), the reference "
             "semantics in vf/exprs.py written from the property statement. Shapes (expression "
             "trees, formats) are enumerated up to the stated bound; all operand VALUES are decided "
             "by the solver. Counterexamples are replayed on the emitted bytes before being reported.")

chk("C01", TV,
    "For every enumerated statement shape (depth-1 exhaustive over leaf kinds x operators x destinations "
    "sampled per seed, depth-2/3 seeded) the bytes emitted by the real generator are executed symbolically "
    "on a fully symbolic initial memory and compared with the exact-integer reference for ALL operand "
    "values (unsat = no input within 64-bit values breaks it). Bounded in tree depth, not in values.",
    BASE_NOTE, "SMT translation validation of emitted eBPF (z3 BV, UF abstraction with proved lemmas, cvc5 bv-as-int fallback)",
    "A:8/C01")

chk("C03", TV,
    "Condition trees (6 comparison operators x operand kinds, mask tests, single/multi-bit fields, ~ & | nesting, "
    "with/Else nested and sequenced) are compiled by the real generator with marker assignments in every branch; "
    "for ALL operand values each marker is set iff the reference truth of its path condition holds, no other "
    "variable changes and the end of the construct is always reached. Bounded in tree depth/nesting, not in values.",
    BASE_NOTE, "SMT translation validation of emitted eBPF control flow (z3 BV, merged symbolic execution)",
    "A:8/C03")

chk("C07", TV,
    "XDP programs with packet variables / packet array elements of every format and byte order (read, write, in-place "
    "update, packet-to-packet copy) under minimumPacketSize and explicit packet-size guards are compiled by the real "
    "generator and executed symbolically on a packet of symbolic length and content: read value == struct.unpack, "
    "written bytes == struct.pack, no other packet byte changes (symbolic index), body runs iff the packet is longer "
    "than the guard, every packet access stays inside the packet. All lengths 0..guard+64 and all byte values.",
    BASE_NOTE + " Replay oracle is the real struct module.",
    "SMT translation validation of emitted eBPF over a symbolic packet (z3 BV + arrays)", "A:8/C07")

chk("C26", TV,
    "The real Motor.program inside a real FastSyncGroup (bundled EL7041 layout, FMMU and direct addressing, plus a "
    "shifted layout) is compiled and its bytes executed symbolically as ONE merged formula; the 16-bit velocity "
    "command equals clamp(clamp(gain*(target-position), prev-A, prev+A), -L, L), zeroed towards an active switch, "
    "for ALL values of all inputs (every frame and map byte symbolic), plus the three 'consequently' clauses, the "
    "enable bit, memory safety of every access and register initialisation.",
    BASE_NOTE, "SMT translation validation of the emitted control program, all inputs universally quantified (z3 BV)", "A:8/C26")

chk("C06", MC,
    "Bounded model checking over the real emitted bytes: k (2; thorough 2 and 3) instances of the compiled statement "
    "`v += amount` / `v -= amount` share the map value memory; every instruction of every instance gets a symbolic time "
    "slot (distinct, increasing along each instance), so ALL interleavings at instruction granularity, all initial "
    "values and all amounts are covered by one query per shape; obligation: final == initial + sum of amounts and no "
    "other map variable changes. A violating schedule is replayed on k concrete interpreters sharing one memory.",
    BASE_NOTE + " BPF_XADD is one indivisible step (hardware/kernel contract).",
    "SMT-based bounded model checking with symbolic scheduler over the emitted eBPF (z3 BV)", "A:8/C06")

chk("C22", MC,
    "The real EtherXDP bytecode (assembled as the library does; on this tree only under a recorded harness workaround, "
    "see known findings) is executed symbolically. One pass: exits partition all inputs, never DROP at the default "
    "rate, foreign / non-identification frames PASS with frame and counters unchanged, frames handed to user space "
    "carry the identification datagram's ethertype, TX/tail-call frames change only the index byte, memory safety -- "
    "for ALL frames, lengths, counters. Histories: bounded model checking with the merged execution of the real "
    "bytecode as transition function, symbolic action per step (deliver any/lose any/inject), symbolic initial "
    "counter, <=3 frames in flight, depth 14 (24).",
    BASE_NOTE + " Reading of 'pass' used for the registered-group bound: handed to user space (XDP_PASS); the stricter "
    "reading is reported as informational only (DESIGN.md C22).",
    "SMT symbolic execution + bounded model checking of the emitted dispatcher (z3 BV)", "A:8/C22")

chk("C21", MC,
    "Per pass, for ALL frames/maps: the real FastSyncGroup.program + SterilePacket.activate bytecode for 6 group layouts "
    "(1-3 write, 0-2 read datagrams, FMMU and direct) re-enables exactly the write datagrams, clears their working "
    "counters and counts one error per differing counter iff output is enabled and the frame is long enough; otherwise "
    "frame and counters are unchanged; always XDP_TX. The real sterile() output is parsed by an independent frame parser "
    "(writers NOP, rest identical). Composition with the dispatcher: every dispatcher exit that does not run the group "
    "changes only index byte/ethertype (real dispatcher bytecode). Histories: BMC over the dispatcher summary (deliver / "
    "lose / inject in any order, depth 14 / 24, any counter): a frame whose writers the group program enabled is never "
    "returned to the bus by the dispatcher alone.",
    BASE_NOTE + " The dispatcher part runs under the C22 harness workaround on this tree.",
    "SMT symbolic execution of the emitted group program over a symbolic frame + compositional argument with C22's BMC", "A:8/C21")

PY_NOTE = ("Trusted: z3 5.1, the proxy library and struct model of vf/pysym.py (the shadow package is the real source of "
           "/repo/ebpfcat re-read on every run; only b''.join(...) is rewritten), the deterministic event loop, the protocol/bus "
           "models named in the evidence. Every counterexample is re-run on the pristine ebpfcat package with concrete values "
           "(and the recorded scheduling decisions) before it is reported. 'states' = symbolic paths explored, 'transitions' = "
           "solver-checked decisions.")

chk("C13", MC,
    "The real coroutine EtherCat.roundtrip runs symbolically on a deterministic event loop for every enumerated call shape "
    "(<=3 format strings from 12 formats, with/without values, trailing read-only format, data None / count / bytes incl. "
    "empty): field values are full-width solver variables, raw data has symbolic length (0..8, thorough 16) and content, the "
    "response is symbolic; obligations: queued payload == struct reference encoding, returned tuple == reference decoding at "
    "the same offsets. All paths explored (exhaustive DART), every obligation discharged by z3 under the path condition.",
    PY_NOTE, "symbolic execution of the real Python coroutine with z3-backed proxies (path-exhaustive within bounds)", "B:8/C13")

chk("C11", MC,
    "The real Packet.append/assemble and SterilePacket.append/append_writer/sterile run symbolically: 1-3 (thorough 1-5) "
    "datagrams each with a SYMBOLIC data length 0..1600 and symbolic content, index, address, working-counter preset, frame "
    "index and ethertype; plus 14/15/16-datagram frames around the count limit. An independent ETG.1000.4 walker over the "
    "assembled byte rope proves header length, every datagram header field, the 'more' flag, data bytes (symbolic probe "
    "index) and working counter at the positions append reported, padding to 46, rejection iff it does not fit, rejected "
    "append leaves the packet unchanged; sterile copy differs only by NOP on writer commands.",
    PY_NOTE, "symbolic execution of the real Python with byte ropes of symbolic length (z3 BV, path-exhaustive)", "B:8/C11")

chk("C14", MC,
    "The real Terminal.to_operational/get_state/set_state coroutines (through the real roundtrip encoding) run symbolically "
    "against an AL-register terminal model on a deterministic event loop; start state, error flag, status code, unused status "
    "bits, polls per transition (0..2, thorough 0..3), the polls an acknowledged terminal needs to leave the state it reported "
    "(0..1, thorough 0..3) and the poll at which an error appears are solver variables, targets "
    "enumerated. The recorded AL-control writes / AL-status reads are checked: ack first, one step at a time in order, never "
    "above target, next request only after the previous state was reported, return/raise conditions. All paths explored.",
    PY_NOTE + " AL state machine model written from ETG.1000.6 (protocol-conformant terminal).",
    "symbolic execution of the real coroutines against a nondeterministic protocol model (z3, path-exhaustive)", "B:8/C14")

chk("C20", MC,
    "Inductive step over the real Terminal.map_fmmu (enter and exit) from an ARBITRARY slot table: 1..4 FMMUs, each free or "
    "in use (solver booleans), all logical addresses, sizes and offsets symbolic, for a read and a write mapping: chosen "
    "index is an in-range previously free slot, exactly that FMMU's register block is written with the right entry, other "
    "slots untouched, no free slot => failure without touching anything, exit frees and deactivates exactly that slot. Plus "
    "real histories of up to 3 (4) nested mappings ended in every order (solver-chosen read/write kinds).",
    PY_NOTE, "symbolic execution of the real coroutine from an arbitrary pre-state (one inductive step) + bounded histories", "B:8/C20")

chk("C27", MC,
    "The real Valve.reset/update run symbolically over histories of 3 (4) updates after a reset: per step the requested target, "
    "both switch readings and the clock advance at every clock reading are solver variables (clock stub: arbitrary "
    "non-decreasing instants), initial coil symbolic; moving times {0,1,5} and both safe-state settings enumerated. After "
    "every step coil/target/error are compared with the statement (position check for safeState=closed, error reaction for "
    "both settings). All paths explored.",
    PY_NOTE, "symbolic execution of the real device code over bounded histories with a symbolic clock (z3)", "B:8/C27")

chk("C16", MC,
    "The real Terminal.sdo_read/sdo_write/mbx_send/mbx_recv coroutines (through the real roundtrip encoding and MailboxLock) "
    "run symbolically against a protocol-conformant CoE server model (ETG.1000.6: expedited, normal, segmented download and "
    "upload): value length 1..mailbox+12 (thorough 2*mailbox+8) and content, index and subindex symbolic; mailbox sizes "
    "enumerated; complete access and subindex; response delays and an unrelated EoE mail chosen by the solver. Obligations: "
    "server-side stored bytes == written bytes, returned bytes == server bytes, toggle bits alternate from 0, mailbox counters "
    "cycle, every message fits the mailbox, no conformance complaint from the server, no exception.",
    PY_NOTE + " CoE server model vf/coemodel.py written from ETG.1000.6 5.6.2.",
    "symbolic execution of the real coroutines against a nondeterministic protocol server model (z3, path-exhaustive)", "B:8/C16")

chk("C17", MC,
    "The real Terminal._eeprom_read_one/read_eeprom run symbolically against an SII register model (image content, identity "
    "words, category word-lengths 0..3 (6), busy polls -- the data register keeps the previous words while busy --, 4-/8-byte "
    "read capability symbolic; category types enumerated): "
    "identity fields and every category's bytes are returned exactly as stored. parse_sync_managers on 1..4 fully symbolic "
    "entries and parse_pdos (EEPROM source) on PDO lists with symbolic bit lengths and solver-chosen gaps: every area / "
    "entry gets the stored offset, size, bit position; misaligned byte entries are rejected.",
    PY_NOTE + " SII model per the ESC register description (0x502 control/status, 0x504 address, 0x508 data).",
    "symbolic execution of the real coroutines against a register-level EEPROM interface model (z3, path-exhaustive)", "B:8/C17")

chk("C18", MC,
    "The real SyncGroupBase.__init__/allocate, EBPFTerminal.allocate, AerotechBase.allocate, SterilePacket.append_fmmu and "
    "EtherCat.get_fmmu_addr run symbolically with EVERY input/output size (and Aerotech packet size) a solver variable 0..1500; "
    "terminal kinds (FMMU/direct/Aerotech), read-write flags and 1-2 (3) groups enumerated. The assembled frame is walked "
    "independently: each region has exactly its size and lies inside its transporting datagram, regions are pairwise disjoint, "
    "FMMU logical addresses map to the same bytes, direct datagrams are exactly the region, logical windows of different groups "
    "are disjoint, and a group is rejected only if it really does not fit into one frame.",
    PY_NOTE, "symbolic execution of the real allocation code with symbolic sizes over byte ropes (z3, path-exhaustive)", "B:8/C18")

chk("C12", MC,
    "The real roundtrip/sendloop/process_packet/roundtrip_packet/datagram_received run on a deterministic asyncio loop against a "
    "frame-level bus stub: 1-2 (3) concurrent requests with SYMBOLIC payload length (0..1472; optionally one 1473..1600 that can "
    "never fit) and content; per frame the engine decides deliver/lose/duplicate, the returned data and 16-bit working counters "
    "are symbolic; any one request may be cancelled before or after sending; randint yields a fresh or colliding frame index. "
    "Obligations: each submitted request is sent exactly once in submission order with its own payload; it completes with the bus "
    "bytes at its own datagram position, or EtherCatError iff its counter is 0, or stays pending iff its frame was lost; other "
    "requests' cancellation/failure never changes its outcome; an oversize request fails and the master does not stall.",
    PY_NOTE + " asyncio's FIFO ready queue is taken as contract (no artificial reordering).",
    "symbolic execution of the real coroutines on a deterministic event loop with solver-chosen faults/cancellation (z3)", "B:8/C12")

chk("C30", MC,
    "The real SyncGroup.start/update_devices and SyncGroupBase.run (with the real map_fmmu, to_operational, set_state, "
    "roundtrip_packet, datagram_received, PacketVar.get/set) run on the deterministic event loop with virtual time against a "
    "datagram-level terminal model and a frame-level stub for the cyclic frame: per cycle the returned input data, every returned "
    "16-bit working counter and the values devices write are solver variables. Obligations over 2 (3..5) cycles: devices see the "
    "inputs of the latest response before update, outputs set in cycle k are in frame k+1, every working counter is zero in each "
    "re-sent frame, the error count grows by exactly one per datagram whose counter differs from the expected value.",
    PY_NOTE, "symbolic execution of the real cyclic coroutine on a deterministic event loop with symbolic bus data (z3)", "B:8/C30")

chk("C25", MC,
    "The real find_free_address/assigned_address/scan_serial_numbers/eeprom_read/count and Terminal.initialize run on the "
    "deterministic event loop against a datagram-level bus of 1-2 (3) terminals; the pre-assigned address of every terminal and "
    "the values returned by an adversarial randint stub (any terminal's address, any earlier value, range ends, other) are "
    "engine decisions explored exhaustively; serial numbers symbolic. Obligations: assigned addresses lie in the range, are "
    "pairwise distinct, never equal an address at which another terminal answers; pre-assigned addresses are kept. This check is "
    "mostly exhaustive decision exploration (small symbolic part) -- stated in the evidence.",
    PY_NOTE, "exhaustive exploration of adversarial random draws and bus configurations with the symbolic engine", "B:8/C25")

chk("C24", MC,
    "The real SyncGroup / FastSyncGroup (with register_sync_group) / ProcessSyncGroup (wait_for_process) start and run on the "
    "deterministic event loop with virtual time, simulated terminals, bus, bpf map calls and subprocess; the task is cancelled "
    "after N event-loop steps with N an engine decision covering every step 0..60 (thorough 0..140) from start-up through the "
    "first cycles. Obligations: the task ends cancelled (not another error), every terminal asked to go OPERATIONAL is later asked "
    "back to SAFE-OPERATIONAL, all FMMUs are freed, the kernel program is unregistered (fast), the subprocess is told to stop and "
    "waited for (process-based). Mostly exhaustive exploration of the cancel point (small symbolic part).",
    PY_NOTE, "exhaustive exploration of the cancellation point over the real coroutines on a deterministic event loop", "B:8/C24")

chk("C28", MC,
    "The real Serial.update runs symbolically over histories of 6-7 (8-10) cycles against an EL6002 handshake model "
    "(initialisation, toggle request/accept in both directions at once): application writes of symbolic length 1..30 and content "
    "at engine-chosen cycles, terminal chunks of symbolic length 0..22, accept delays per chunk and direction symbolic. "
    "Obligations: chunks presented to the terminal are the application's byte stream once and in order, one transmit-request "
    "toggle per chunk, chunk kept until acknowledged, no new chunk before the acknowledge; every announced chunk is delivered to "
    "the application exactly once in order with one receive-accept toggle each; with data waiting and no chunk outstanding "
    "a new chunk is announced in that cycle (progress), also when the terminal's toggle bits are arbitrary at connection.",
    PY_NOTE + " Pipes are byte queues; handshake model written from the EL6002 documentation.",
    "symbolic execution of the real device code against a nondeterministic handshake model over bounded histories (z3)", "B:8/C28")

chk("C15", MC,
    "real Terminal.sdo_read/sdo_write with the real MailboxLock (2-3 asyncio "
    "tasks, CoE server model) and the real LockFile/ParallelMailboxLock run by "
    "2-3 simulated processes over a POSIX file/lockf model with a scheduling "
    "point at every system call (bounded preemptions, optional crash); values, "
    "stored counter symbolic; obligations discharged by z3 under each path",
    PY_NOTE, "symbolic execution of the Python source (own z3-backed engine) "
    "with exhaustive bounded schedule exploration", "B:8/C15")

chk("C23", MC,
    "real ParallelEtherCat.run/get_ethertype and the real FMMULock run by 2-3 simulated processes over a POSIX file model "
    "(rename onto empty directory, rmdir, O_EXCL, lockf) and a kernel model for bpf pin/get and XDP attach/detach; scheduling "
    "point at every call, bounded preemptions explored exhaustively, randrange adversarial, optional crash, FMMU bitmap bytes "
    "symbolic. A monitor checks at every point: single installer, dispatcher attached and table pinned for every running "
    "participant, distinct ethertypes, distinct address windows never handed out twice. Mostly exhaustive decision exploration; "
    "the solver decides the bitmap obligations.",
    PY_NOTE + " Histories in which a last participant's teardown overlaps another's start are a known finding and excluded.",
    "exhaustive bounded schedule exploration of the real code over file-system/kernel models, symbolic data decided by z3", "B:8/C23")

chk("C19", TV,
    "seeded random terminal layouts (FMMU/direct, PDO maps with bits and all integer formats, ProcessDesc/PacketDesc links): "
    "fast path = emitted bytes of the device program in a real FastSyncGroup executed symbolically over a symbolic frame and map; "
    "slow path = real PacketVar.get/set executed symbolically on a symbolic bytearray; both compared with one reference whose "
    "positions are parsed from the assembled frame's datagram table and the FMMU logical addresses; frame condition with a "
    "symbolic byte index; in every third layout the same device object was first laid out and assembled in another group "
    "whose leading terminal shifts all regions",
    BASE_NOTE, "symbolic execution of the emitted eBPF bytes (z3 bit-vectors) and of the Python source against a common reference", "A:8/C19")

chk("C29", MC,
    "seeded random device classes (inheritance, DeviceVars of all integer formats, x and multi-element formats) in a real "
    "ProcessSyncGroup whose shared Arrays are symbolic byte arrays; the child is a deep copy sharing only the Arrays; symbolic "
    "values written through the real descriptors on one side are read on the other; every other variable keeps its value",
    PY_NOTE, "symbolic execution of the Python source (own z3-backed engine), values symbolic over each format's range", "B:8/C29")

chk("C08", TV,
    "seeded random declaration sets (array and per-CPU maps declared in the program or a base class, variables of all integer, "
    "x, multi-element and byte-order-prefixed formats in base class, program and 1-2 subprogram instances, overridden names): layout disjointness; "
    "program side = emitted bytes executed symbolically over a symbolic map (reads with sign, writes, frame condition with a "
    "symbolic address); Python side = real descriptors executed symbolically on symbolic map bytes and symbolic per-CPU lookup "
    "results; both against one byte-level reference",
    BASE_NOTE, "symbolic execution of the emitted eBPF bytes (z3 bit-vectors) and of the Python descriptors against a common byte-level reference", "A:8/C08")

chk("C10", MC,
    "seeded random programs (hash-map variables of all integer formats, per-CPU variables, Dict with packed Structure key/value): "
    "every user-space map operation of the Python API runs through the real wrappers symbolically; the ctypes layer is replaced "
    "by a kernel model proving for each call that key and value buffers cover what the kernel accesses; for per-CPU maps the "
    "number of possible CPUs is a solver variable (online..4096) and z3 decides buffer >= value size rounded up to 8 x possible "
    "CPUs for all of them. The other sizes are concrete per program (exhaustive, no solver needed).",
    PY_NOTE, "execution of the real map wrappers in the symbolic engine against a kernel model that asserts buffer sizes", "B:8/C10")

chk("C09", TV,
    "seeded random programs (1-3 hash variables of all integer formats with defaults, some declared in a base class; Dict with "
    "packed Structure key/value): Python side = real descriptors, HashMap.load, TheDict and Structure/Member executed "
    "symbolically above a kernel model of the bpf map commands (defaults, set/get of symbolic values, independence, insert / "
    "lookup / modify / absent key / iteration / pop / delete, bytes reaching the kernel vs the reference layout); program side = "
    "emitted bytes of generated programs (hash variables copied in/out; Dict update, lookup with members copied out, in-place "
    "modification, Else branch) executed symbolically over symbolic map contents and slot tables",
    BASE_NOTE, "symbolic execution of the emitted eBPF bytes (z3 bit-vectors) and of the Python map API against one byte-level reference", "A:8/C09")

chk("C04", TV,
    "seeded random programs (main and subprogram locals of all sizes with several instances, array-map and hash-map variables, "
    "Dict key/value members; 4-8 statements: copies, moves, arithmetic with temporaries, hash variable := expression, "
    "comparisons, Dict update/lookup): the emitted bytes run symbolically over symbolic inputs; every variable copied out at "
    "the end must hold the value last assigned to it (plain store reference); all memory accesses inside their regions; "
    "counted variables (4H, 2I, ...) declared among the others keep their whole extent clear of every other variable "
    "(interval check on the generator's addresses)",
    BASE_NOTE + " Subprogram locals overlapping another instance's local are a recorded finding and outside the claim.",
    "symbolic execution of the emitted eBPF bytes (z3 bit-vectors) against a plain store reference", "A:8/C04")

chk("C05", TV,
    "every program assembled by the generators of C01, C03, C04, C07, C08, C09, C19 (seeded samples), ktime/prandom programs and "
    "the library's own programs (fast sync groups with each bundled device, dispatcher) is decided twice: the emitted bytes run "
    "symbolically over all paths and z3 discharges the verifier's necessary conditions (registers initialised before use, helper "
    "arguments, r0 at exit, every access inside stack / context / null-checked map value / guarded packet, all paths end), and -- "
    "when bpf() is usable -- the maps are created in the running kernel and BPF_PROG_LOAD gives the verifier's own verdict; a "
    "solver counterexample is confirmed by the kernel's rejection",
    BASE_NOTE + " The solver side covers necessary conditions only; acceptance is the kernel's verdict where available.",
    "symbolic execution of the emitted eBPF bytes (z3) for the verifier's necessary conditions, cross-checked with the kernel verifier", "A:8/C05")

chk("C02", TV,
    "statements mixing fixed-point operands (x variables, x register view, decimal constants) and integer operands, all six "
    "arithmetic operators, reflected constant forms, conversions, augmented assignments, depth-2 trees with exact inner nodes and "
    "mixed comparisons are compiled by the real generator; the emitted bytes run symbolically for all operand values in "
    "[-2^26, 2^26) and the stored result is compared with the exact rational result dropped to the destination's representation",
    BASE_NOTE + " Quotients with a negative operand are a recorded finding (unsigned division, as in C01) and outside the claim.",
    "symbolic execution of the emitted eBPF bytes (z3 bit-vectors, UF abstraction of mul/div with proved lemmas, cvc5 fallback) against an exact rational reference", "A:8/C02")
