#!/bin/bash
# apply every seeded change to a scratch worktree of /repo's HEAD and run the
# property's quick check against it: each must exit 1 with VIOLATION lines.
# usage: tools/seedverify.sh [name-prefix]
cd /verif
for d in seeded/${1}*/; do
  n=$(basename $d); p=${n%%-*}; p=${p%[bc]}; w=/tmp/sv_$p
  git -C /repo worktree add -f $w HEAD -q 2>/dev/null
  if ! git -C $w apply /verif/$d/patch.diff 2>/dev/null; then echo "$n: PATCH DOES NOT APPLY"; git -C /repo worktree remove --force $w; continue; fi
  out=$(VERIF_REPO=$w timeout 1800 ./check $p quick 2>&1); rc=$?
  echo "$n: exit $rc, $(echo "$out" | grep -c '^VIOLATION') VIOLATION, $(echo "$out" | grep -c '^HARNESS-ERROR') harness error"
  git -C /repo worktree remove --force $w
done
git -C /repo worktree prune
