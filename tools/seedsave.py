"""seedsave.py <ID> <name> <property> "<needs>" "<caught by / result>" : copy a verified seeded change into /verif/seeded/<name>/"""
import json, os, shutil, sys
sid, name, prop, needs, result = sys.argv[1:6]
src = f"/tmp/{os.environ.get('SEEDPFX', 'seed')}_{sid}/SEED"
dst = f"/verif/seeded/{name}"
os.makedirs(dst, exist_ok=True)
for f in ("patch.diff", "demo.py", "notes.md"):
    if os.path.exists(f"{src}/{f}"):
        shutil.copy(f"{src}/{f}", f"{dst}/{f}")
meta = dict(property=prop, origin="independent sub-agent given only the property text and a scratch worktree",
            needs_to_manifest=needs,
            verified=["existing suite unchanged with the patch: 44 passed, 5 failed (same ids)",
                      "demo.py: FAIL with the patch, PASS without (run in the scratch worktree)",
                      f"./check {prop} quick with VERIF_REPO=<worktree with patch>: {result}"],
            apply="git -C /repo apply /verif/seeded/%s/patch.diff ; undo: git -C /repo checkout -- ." % name)
json.dump(meta, open(f"{dst}/meta.json", "w"), indent=1)
print("saved", dst)
