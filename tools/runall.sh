#!/bin/bash
# run every registered check of a tier, one after the other; summary on stdout
tier=${1:-quick}
cd /verif
for id in $(python3 -c "import json;print(' '.join(c['property_id'] for c in json.load(open('MANIFEST.json'))['checks']))"); do
  s=$(date +%s)
  out=$(timeout ${2:-3600} ./check $id $tier 2>&1)
  rc=$?
  e=$(( $(date +%s) - s ))
  echo "$id rc=$rc ${e}s $(echo "$out" | grep -c '^KNOWN-FINDING') known; $(echo "$out" | grep '^\[' | tail -1 | cut -c1-120)"
  echo "$out" | grep "^VIOLATION\|^HARNESS-ERROR\|signature:" | sort | uniq -c | head -5
done
