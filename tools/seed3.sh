#!/bin/sh
# usage: seed3.sh <ID>  -- verify a third-round seeded change left in /tmp/s3_<ID> (patch.diff, demo.py at its top)
id=$1
w=/tmp/s3_$id
cd $w || exit 1
git diff -- ebpfcat > /tmp/s3_$id.cur.diff
if ! diff -q /tmp/s3_$id.cur.diff patch.diff >/dev/null; then echo "!! worktree diff differs from patch.diff; using worktree diff"; cp /tmp/s3_$id.cur.diff patch.diff; fi
echo "== tests with change"; /venv/bin/python -m pytest -q -p no:cacheprovider --timeout=900 --continue-on-collection-errors ebpfcat 2>&1 | tail -1
echo "== demo with change"; /venv/bin/python demo.py > /tmp/s3_demo_with_$id.txt 2>&1; echo "exit $?"; tail -2 /tmp/s3_demo_with_$id.txt
git apply -R patch.diff || exit 1
echo "== demo without change"; /venv/bin/python demo.py > /tmp/s3_demo_without_$id.txt 2>&1; echo "exit $?"; tail -1 /tmp/s3_demo_without_$id.txt
git apply patch.diff || exit 1
git diff --stat -- ebpfcat | tail -1
echo "== check $id against seeded tree"
cd /verif && VERIF_REPO=$w timeout 1500 ./check $id quick > /tmp/s3_check_$id.txt 2>&1; echo "exit $?"
grep -c '^VIOLATION' /tmp/s3_check_$id.txt; grep "what:" /tmp/s3_check_$id.txt | head -3 | cut -c1-300; grep "HARNESS" /tmp/s3_check_$id.txt | head -3 | cut -c1-200
