#!/bin/sh
# usage: seedcheck.sh <ID> [check ids...]   -- verify a seeded change in /tmp/seed_<ID>
id=$1; shift
w=/tmp/${SEEDPFX:-seed}_$id
cd $w || exit 1
echo "== tests with change"; /venv/bin/python -m pytest -q -p no:cacheprovider --timeout=900 ebpfcat 2>&1 | tail -1
echo "== demo with change"; /venv/bin/python SEED/demo.py > /tmp/seed_demo_with.txt 2>&1; echo "exit $?"; tail -2 /tmp/seed_demo_with.txt
git apply -R SEED/patch.diff || exit 1
echo "== demo without change"; /venv/bin/python SEED/demo.py > /tmp/seed_demo_without.txt 2>&1; echo "exit $?"; tail -1 /tmp/seed_demo_without.txt
git apply SEED/patch.diff || exit 1
git diff --stat -- ebpfcat | tail -1
for c in "$@"; do
  echo "== check $c against seeded tree"
  (cd /verif && VERIF_REPO=$w ./check $c quick > /tmp/seed_check_$c.txt 2>&1; echo "exit $?"; grep -c VIOLATION /tmp/seed_check_$c.txt; grep "what:" /tmp/seed_check_$c.txt | head -2 | cut -c1-300; grep "^\[C\|HARNESS" /tmp/seed_check_$c.txt | head -3 | cut -c1-200)
done
